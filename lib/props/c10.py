"""C10 - pipeline env block: definition order, runtime precedence, export to the caller."""
import json

from lib import vlib

CFG = """SPECIFICATION Spec
CONSTANTS
  MaxEntries = %d
  PoolSize = %d
  DoExport = %s
  RenameInPlace = FALSE
INVARIANTS InvAtDone InvDefinitionOrder InvRuntimePrecedence Export
PROPERTY Termination
CHECK_DEADLOCK FALSE
"""
ASSUMPTIONS = [
    "Entries whose FINAL (expanded) names collide with each other: which one survives is not stated and not judged - only that the rewritten block is still a mapping (one entry per final name, each one an entry the fold produced; Len and Get agree with Range); an entry whose expanded name equals a later entry's WRITTEN name is in scope (the later entry ends under another name and must still be processed: finding F22).",
    "Name equality of the caller is exact or upper-casing; both the harness's own recording environment and the library's internal/env.Env (both case modes) are used as the caller environment.",
    "Strings are token sequences (literal, $V/${V}, $$V/\\\\$V, ${V:-d}/${V-d}, ${V?}); the substring form ${V:0:3} is not modelled.",
]


def sig(ev):
    c = ev["c"]
    return {"mode": c["mode"], "prefer": c["prefer"], "envkind": ev["envkind"], "n": len(c["block"]), "err": ev["err"], "panic": ev["panic"]}


def desc(ev):
    c = ev["c"]
    return "Interpolate(env block %s, env0=%s, prefer=%s, %s/%s): block=%s probe=%r err=%s" % (
        json.dumps([[e["k"], e["v"]] for e in c["block"]])[:300], json.dumps(c["env0"]), c["prefer"], c["mode"], ev["envkind"],
        json.dumps(ev["block"])[:200], ev["probe"][:160], ev.get("errmsg") or ev["err"])


def run(ctx, replay):
    if replay:
        vlib.replay_main(ctx, replay, "c10", "Trace_EnvBlock")
        return {}, ASSUMPTIONS
    thorough = ctx.tier == "thorough"
    runs = [(2, 7, True)] if not thorough else [(2, 10, True), (3, 4, True)]
    cases, mruns = [], []
    for me, ps, exp in runs:
        r = ctx.tlc_model("MC_EnvBlock", None, cfg_text=CFG % (me, ps, "TRUE"), label="MC_EnvBlock entries<=%d pool=%d" % (me, ps),
                          workers=8, timeout=3000)
        mruns.append(r)
        cases += vlib.export_cases(r)
    if not cases:
        raise vlib.MachineryError("no cases exported")
    seen = set()
    uniq = []
    for c in cases:
        k = json.dumps(c, sort_keys=True)
        if k not in seen:
            seen.add(k)
            uniq.append(c)
    for i, c in enumerate(uniq):
        c["edit"] = (((i * 2654435761) & 0xffffffff) >> 12) % 4    # 0: the parsed block; 1-3: the same block reached through Set / Delete / Replace (tombstones in the storage)
    traces, sums = vlib.drive_cases(ctx, "c10", uniq, nchunks=8)
    t2, s2 = vlib.drive_gen(ctx, "c10", 8, extra=["-n", 4000 if thorough else 400])
    n, bad = vlib.judge(ctx, "Trace_EnvBlock", traces + t2)
    vlib.report_bad(ctx, bad, sig, desc,
                    lambda ev: {"cases": [ev["c"]], "extra": ["-envkind", ev["envkind"]], "event": ev},
                    vlib.confirm_by_cases(ctx, "c10", "Trace_EnvBlock"))
    cov = {
        "states": sum(r.distinct for r in mruns), "transitions": sum(r.generated for r in mruns),
        "traces_validated_against_impl": n - len(bad),
        "samples": [s for sm in sums + s2 for s in sm.get("samples", [])][:3],
        "evaluations": n,
        "distinct_nontrivial": sum(s.get("nontrivial", 0) for s in sums + s2),
        "rule": "cases = env blocks (<= MaxEntries entries from the name pool x value pool, names built by expansion, forward references, "
                "escapes, defaults, required) x 5 runtime envs x prefer x {exact, case-insensitive}, each run with the harness env and with "
                "internal/env.Env; plus seeded random chains of 5-40 entries. By the case: the block as parsed or reached through Set / Delete / "
                "Replace (tombstones in its storage), and a fifth of the pipelines BARE (nothing but the env block). The probe text sits in a step, "
                "in agents.queue (before the block) and in notify. Distinct after de-duplication; non-trivial = non-empty block.",
        "exhaustive": True,
        "trace_events_rejected": len(bad),
    }
    return cov, ASSUMPTIONS
