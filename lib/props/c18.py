"""C18 - only approved asymmetric key/algorithm pairs pass key validation."""
import json

from lib import vlib

ALGS = """  SigAlgs = {"ES256", "ES256K", "ES384", "ES512", "EdDSA", "HS256", "HS384", "HS512", "PS256", "PS384", "PS512", "RS256", "RS384", "RS512", "none"}
  EncAlgs = {"A128GCMKW", "A128KW", "A192GCMKW", "A192KW", "A256GCMKW", "A256KW", "ECDH-ES", "ECDH-ES+A128KW", "ECDH-ES+A192KW", "ECDH-ES+A256KW", "PBES2-HS256+A128KW", "PBES2-HS384+A192KW", "PBES2-HS512+A256KW", "RSA-OAEP", "RSA-OAEP-256", "RSA-OAEP-384", "RSA-OAEP-512", "RSA1_5", "dir"}
"""
CFG = "SPECIFICATION Spec\nCONSTANTS\n" + ALGS + """  DoExport = TRUE
  MaxSet = %d
INVARIANTS InvValidate InvLoadKey InvNoSymmetric Export
CHECK_DEADLOCK FALSE
"""
TCFG = "SPECIFICATION Spec\nCONSTANTS\n" + ALGS + "INVARIANT Report\nCHECK_DEADLOCK FALSE\n"
ASSUMPTIONS = [
    "Real cryptography is assumed sound (the model is symbolic: a signature verifies exactly under its own key pair); the run shows the code uses it as the model says.",
    "The algorithm names are read from the JOSE library at run time and must equal the specification's constants, otherwise the run is a machinery error (exit 2), never a pass.",
    "Key ids are unique among keys that carry one (which of two keys with the same id is returned is not stated by the property).",
]


def sig(ev):
    s = {"kind": ev["kind"], "panic": ev["panic"]}
    if ev["kind"] == "validate":
        s.update(kty=ev["c"]["key"]["kty"], alg=ev["c"]["key"]["alg"], accepted=ev["accepted"])
    elif ev["kind"] == "loadkey":
        s.update(req=ev["c"]["req"], n=len(ev["c"]["set"]), ok=ev["ok"])
    elif ev["kind"] == "newkeypair":
        s.update(alg=ev["alg"])
    elif ev["kind"] == "cross":
        s.update(same=ev["i"] == ev["j"], verified=ev["verified"])
    return s


def desc(ev):
    return "key policy event not explained by the specification: " + json.dumps(ev)[:500]


def run(ctx, replay):
    if replay:
        rep = json.load(open(replay))
        extra = rep.get("extra") or []
        if vlib.confirm_by_cases(ctx, "c18", "Trace_KeyPolicy", cfg_text=TCFG)(rep):
            ctx.violations.append({"what": "replayed: still not explained", "sig": rep.get("sig", {}), "replay": replay})
        return {}, ASSUMPTIONS
    thorough = ctx.tier == "thorough"
    a = ctx.tlc_model("MC_KeyPolicy", None, cfg_text=CFG % (3 if not thorough else 4), label="MC_KeyPolicy tables", workers=8, timeout=1200)
    cases = vlib.export_cases(a)
    if len(cases) != a.distinct:
        raise vlib.MachineryError("export: %d cases for %d states" % (len(cases), a.distinct))
    for i, c in enumerate(cases):
        c["rot"] = i     # how an abstract key is realised (which member is the broken one, curve, padding of the key-set file)
    traces, sums = vlib.drive_cases(ctx, "c18", cases, nchunks=8)
    t2, s2 = vlib.drive_gen(ctx, "c18", 1, extra=["-lib", "1"])
    n, bad = vlib.judge(ctx, "Trace_KeyPolicy", traces + t2, cfg_text=TCFG)
    vlib.report_bad(ctx, bad, sig, desc,
                    lambda ev: {"cases": [ev["c"]] if "c" in ev else [], "extra": [] if "c" in ev else ["-lib", "1"], "event": ev},
                    vlib.confirm_by_cases(ctx, "c18", "Trace_KeyPolicy", cfg_text=TCFG))
    cov = {
        "states": a.distinct, "transitions": a.generated,
        "traces_validated_against_impl": n - len(bad),
        "samples": [s for sm in sums + s2 for s in sm.get("samples", [])][:4],
        "evaluations": n, "distinct_nontrivial": len(cases),
        "rule": "validate table: 4 key types x (15 signature + 19 key-encryption algorithm names + none + unknown) x structurally valid/invalid x "
                "private/public (invalid = a broken public member, or - for private keys - an intact public part with an empty / short `d`); loadkey table: "
                "key sets of 0..MaxSet keys x ids x requested id (present, absent, near misses with blanks / other case), a quarter of the files padded "
                "beyond 5 KiB; plus NewKeyPair for every signature "
                "algorithm and all ordered pairs of generated key pairs for cross verification. Distinct by construction.",
        "exhaustive": True,
        "accepted_keys": sum(s.get("accepted", 0) for s in sums),
        "trace_events_rejected": len(bad),
    }
    return cov, ASSUMPTIONS
