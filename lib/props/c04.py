"""C04 - env interpolation reaches every string exactly once, deterministically."""
import json

from lib import vlib

MC = """SPECIFICATION Spec
CONSTANTS
  N = %d
  RevisitRenamedKeys = FALSE
INVARIANTS InvOnce InvSinglePass InvUntouched
PROPERTY Termination
CHECK_DEADLOCK FALSE
"""
ASSUMPTIONS = [
    "Every generated string is position-unique (one reference to its own variable, one escaped reference to its own variable), so a missed, repeated or second-pass expansion is observable; distinct keys of one mapping never expand to the same text.",
    "Plugin sources are path-like (left as written by canonicalisation) and steps have a single `command`, so the marshalled form shows each string as written.",
    "Mappings are compared unordered here (Go maps marshal sorted by key; order is C08's subject).",
    "Go's map iteration order is sampled by R repeated runs per document, not enumerated.",
]


def sig(ev):
    if ev.get("kind") == "nilenv":
        return {"kind": "nilenv", "panic": ev["panic"], "err": ev["err"], "leak": ev["b"] != "b unset |"}
    s = {"err": ev["err"], "panic": ev["panic"], "same": ev["same"]}
    # which variables were read an unexpected number of times is the most useful discriminator
    gc = ev.get("getcounts") or {}
    s["q_read"] = any(k.startswith("Q") and v > 0 for k, v in gc.items())
    s["p_reread"] = any(k.startswith("P") and v > 1 for k, v in gc.items())
    s["probe"] = ev.get("probe", "")
    return s


def desc(ev):
    if ev.get("kind") == "nilenv":
        return "two pipelines interpolated with a nil environment, one after the other: the first defines %s in its env block; the second, which only refers to it, got %r (want 'b unset |'), the first %r" % (ev["name"], ev["b"], ev["a"])
    gc = ev.get("getcounts") or {}
    odd = {k: v for k, v in gc.items() if (k.startswith("Q") and v > 0) or (k.startswith("P") and v > 1)}
    return "Interpolate on %s...: err=%s same_over_repeats=%s odd_reads=%s" % (ev["c"]["src"][:300], ev.get("errmsg") or ev["err"], ev["same"], json.dumps(odd)[:200])


def to_case(ev):
    if ev.get("kind") == "nilenv":
        return {"kind": "nilenv", "name": ev["name"]}
    return {"src": ev["c"]["src"], "repeats": 300 if ev.get("probe") else 64, "env": ev["env"], "strings": ev["strings"], "probe": ev.get("probe", "")}


def run(ctx, replay):
    if replay:
        vlib.replay_main(ctx, replay, "c04", "Trace_InterpWalk")
        return {}, ASSUMPTIONS
    thorough = ctx.tier == "thorough"
    a = ctx.tlc_model("MC_InterpWalk", None, cfg_text=MC % (4 if thorough else 3), label="MC_InterpWalk", workers=8, timeout=1800)
    b = ctx.tlc_model("MC_InterpOMap", "MC_InterpOMap", label="MC_InterpOMap (ordered maps, slot level)", workers=4, timeout=1800)
    traces, sums = vlib.drive_gen(ctx, "c04", 8, extra=["-n", 400 if thorough else 60, "-repeats", 32 if thorough else 8])
    t3, _ = vlib.drive_gen(ctx, "c04", 1, extra=["-probes", 1], tag="probes")
    traces += t3
    n, bad = vlib.judge(ctx, "Trace_InterpWalk", traces, timeout=3000)
    vlib.report_bad(ctx, bad, sig, desc, lambda ev: {"cases": [to_case(ev)], "event": {k: ev[k] for k in ev if k not in ("before", "after")}},
                    vlib.confirm_by_cases(ctx, "c04", "Trace_InterpWalk"))
    cov = {
        "states": a.distinct + b.distinct, "transitions": a.generated + b.generated,
        "traces_validated_against_impl": n - len(bad),
        "samples": [s for sm in sums for s in sm.get("samples", [])][:2],
        "evaluations": n,
        "distinct_nontrivial": sum(s.get("strings", 0) for s in sums),
        "rule": "documents from the pipeline grammar (all step kinds, groups, plugins in three forms, matrix, cache, signature, nested unknown "
                "fields, top-level extras, maps padded to 9-40 keys, subtrees shared through YAML aliases), every string position-unique; "
                "non-trivial count = number of distinct generated string positions judged (each is its own (string, position) case)",
        "exhaustive": False,
        "trace_events_rejected": len(bad),
    }
    return cov, ASSUMPTIONS
