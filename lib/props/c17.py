"""C17 - plugin source canonicalisation follows the documented rules and is idempotent."""
import json

from lib import vlib

CFG = """SPECIFICATION Spec
CONSTANTS
  Names = %s
  RefSegs = {"v1.2.3", "main", "feature", "0"}
  MaxSegs = %d
  MaxRef = 2
  DoExport = TRUE
INVARIANTS InvImplEqualsRule InvIdempotent Export
CHECK_DEADLOCK FALSE
"""
ASSUMPTIONS = [
    "Sources are the documented forms: names/orgs/refs over [A-Za-z0-9._-] (refs may contain '/'), optional host prefix, schemes, scp-style, POSIX and Windows paths; percent-encoding, empty or dot-only components, names starting with '.', ':' or '?' inside names are outside the property.",
    "PrefixTable states what net/url makes of each leading form; every row is exercised through the real code, so a wrong row shows up as a rejected event, not silently.",
]


def sig(ev):
    c = ev["c"]
    return {"prefix": c["prefix"], "nsegs": len(c["segs"]), "hasref": bool(c["ref"]), "panic": ev["panic"],
            "idempotent": ev["full2"] == ev["full"], "key_ok": ev["key"] == ev["full"]}


def desc(ev):
    return "FullSource(%r) = %r, again = %r, marshalled key = %r" % (ev["c"]["spelled"], ev["full"], ev["full2"], ev["key"])


def run(ctx, replay):
    if replay:
        vlib.replay_main(ctx, replay, "c17", "Trace_PluginSource")
        return {}, ASSUMPTIONS
    thorough = ctx.tier == "thorough"
    names = '{"docker", "my.plug_in-2", "ORG", "x", "github.com", "docker-buildkite-plugin", "thing.git", ".", "..", "Buildkite-Plugins"}' if thorough else '{"docker", "my.plug_in-2", "github.com", "docker-buildkite-plugin", "thing.git", ".", "..", "Buildkite-Plugins"}'
    a = ctx.tlc_model("MC_PluginSource", None, cfg_text=CFG % (names, 4 if thorough else 3), label="MC_PluginSource grammar",
                      workers=8, timeout=1200)
    cases = vlib.export_cases(a)
    if len(cases) != a.distinct:
        raise vlib.MachineryError("export: %d cases for %d states" % (len(cases), a.distinct))
    traces, sums = vlib.drive_cases(ctx, "c17", cases, nchunks=8)
    t2, s2 = vlib.drive_gen(ctx, "c17", 8, extra=["-n", 25000 if thorough else 4000])
    n, bad = vlib.judge(ctx, "Trace_PluginSource", traces + t2)
    vlib.report_bad(ctx, bad, sig, desc, lambda ev: {"cases": [ev["c"]], "event": ev},
                    vlib.confirm_by_cases(ctx, "c17", "Trace_PluginSource"))
    cov = {
        "states": a.distinct, "transitions": a.generated,
        "traces_validated_against_impl": n - len(bad),
        "samples": [s for sm in sums + s2 for s in sm.get("samples", [])][:5],
        "evaluations": n,
        "distinct_nontrivial": sum(s.get("rewritten", 0) for s in sums + s2),
        "rule": "grammar: 19 leading forms (a doubled leading slash and a UNC-style `\\\\` among the paths) x 1..MaxSegs path segments from the name pool (incl. a name ending in .git, one carrying the suffix, and an organisation that differs from the default one in letter case only) x "
                "0..2 ref segments x trailing separator where the source is left as written (TLC, exhaustive) plus seeded "
                "random names/refs over the full documented alphabet; non-trivial = sources that canonicalisation rewrites (counted by the driver)",
        "exhaustive": True,
        "trace_events_rejected": len(bad),
    }
    return cov, ASSUMPTIONS
