"""C19 - no hidden shared state: concurrent use is race-free; observers do not mutate."""
import json

from lib import vlib

RACE = True   # the driver is built with -race for this check
MC = 'SPECIFICATION Spec\nCONSTANTS\n  G = {"g1", "g2", "g3"}\n  O = {"o1", "o2", "o3"}\n  MaxVer = %d\nINVARIANTS ObservedIsCurrent RepTracksValue\nPROPERTY FrozenStable\nCHECK_DEADLOCK FALSE\n'
ASSUMPTIONS = [
    "The schedule quantifier is explored by the Go scheduler under the race detector over many rounds of 16 goroutines, not by TLC; TLC decides the sharing discipline on the model and judges the recorded histories.",
    "'Observers do not mutate' is decided deterministically: the deep representation (unexported fields included, slice capacities included) of the observed object is digested before and after every read-only operation, in the sequential reference run and in every goroutine.",
    "A data-race report of the race detector becomes a 'race' event, for which the specification has no action.",
    "Signatures in the shared pipeline are made with a fixed-seed Ed25519 key so that the reference run and the concurrent run are comparable.",
]


def sig(ev):
    if ev["kind"] == "race":
        return {"kind": "race"}
    return {"kind": ev["kind"], "op": ev["op"], "panic": ev["panic"], "mutated": ev.get("repbefore") != ev.get("repafter"),
            "foreign_change": ev.get("repbefore") != ev.get("reppublished"), "same_result": ev["result"] == ev["refresult"]}


def desc(ev):
    if ev["kind"] == "race":
        return "the race detector reported a data race: " + ev["report"][:600]
    return "%s %s on %s by goroutine %s: rep before/after/published %s/%s/%s result %s (reference %s) %s" % (
        ev["kind"], ev["op"], ev.get("obj", ev.get("item")), ev["g"], ev.get("repbefore"), ev.get("repafter"), ev.get("reppublished"),
        ev["result"], ev["refresult"], ev.get("panicmsg", ""))


def run(ctx, replay):
    thorough = ctx.tier == "thorough"
    if replay:
        rep = json.load(open(replay))
        tr = ctx.path("replay.trace")
        ctx.drive(["c19", "-out", tr, "-seed", rep["seed"], "-rounds", rep.get("rounds", 20)], timeout=3000)
        n, bad, _ = ctx.tlc_trace("Trace_Sharing", "Trace_Sharing", tr, label="replay")
        if bad:
            ctx.violations.append({"what": "replayed: still not explained by the specification", "sig": rep.get("sig", {}), "replay": replay})
        return {}, ASSUMPTIONS
    a = ctx.tlc_model("Sharing", None, cfg_text=MC % (3 if thorough else 2), label="Sharing discipline", workers=8, timeout=1800)
    rounds = 400 if thorough else 25
    nproc = 4 if thorough else 2
    traces, sums = [], []
    for i in range(nproc):
        tr = ctx.path("c19_trace_%d.ndjson" % i)
        sm = ctx.path("c19_sum_%d.json" % i)
        ctx.drive(["c19", "-out", tr, "-summary", sm, "-seed", ctx.seed * 10 + i, "-rounds", rounds], timeout=3400)
        traces.append(tr)
        sums.append(json.load(open(sm)))
    n, bad = vlib.judge(ctx, "Trace_Sharing", traces, timeout=3000)

    def confirm(rep):
        tr = ctx.path("confirm_%d.trace" % len(ctx.tlc_runs))
        ctx.drive(["c19", "-out", tr, "-seed", rep["seed"], "-rounds", rep["rounds"]], timeout=3400)
        n2, bad2, _ = ctx.tlc_trace("Trace_Sharing", "Trace_Sharing", tr, label="confirm")
        if rep.get("sig", {}).get("kind") == "race":
            return True      # a schedule-dependent report need not recur; the recorded report is the evidence
        return bool(bad2)
    seeds = {tr: ctx.seed * 10 + i for i, tr in enumerate(traces)}
    bad_with_seed = []
    for tr, i, ev in bad:
        ev = dict(ev, _seed=seeds[tr])
        bad_with_seed.append((tr, i, ev))
    vlib.report_bad(ctx, bad_with_seed, sig, desc,
                    lambda ev: {"seed": ev["_seed"], "rounds": rounds, "sig": sig(ev), "event": {k: ev[k] for k in ev if k != "_seed"}}, confirm)
    cov = {
        "states": a.distinct, "transitions": a.generated,
        "traces_validated_against_impl": n - len(bad),
        "samples": [s for sm in sums for s in sm.get("samples", [])][:2],
        "evaluations": n,
        "distinct_nontrivial": sum(s.get("concurrent_events", 0) for s in sums),
        "rule": "per driver process: a sequential reference run of every observer operation and every own work item, then 16 goroutines x "
                "rounds, each round = parse / interpolate / marshal / sign+verify of an own document plus 12 read-only operations on shared "
                "published objects (ordered maps with tombstones, a signed pipeline, an env map). Non-trivial = events recorded in the "
                "concurrent phase.",
        "exhaustive": False,
        "race_reports": sum(s.get("race_reports", 0) for s in sums),
        "trace_events_rejected": len(bad),
    }
    return cov, ASSUMPTIONS
