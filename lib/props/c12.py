"""C12 - matrix interpolation replaces exactly the permutation's tokens, only in scope."""
import json

from lib import vlib

CFG = """SPECIFICATION Spec
CONSTANTS
  MaxToks = %d
  DoExport = TRUE
INVARIANTS InvScanEqualsRule InvNoTokens Export
CHECK_DEADLOCK FALSE
"""
ASSUMPTIONS = [
    "The permutation is valid for the step's matrix by construction (C11 decides validation); plugin sources are path-like so the marshalled key is the source as written.",
    "Cache settings are outside both lists of the statement: no tokens are put there and they are not compared.",
    "The token catalogue (tokens, near-misses, literals) is closed under concatenation w.r.t. the documented token grammar; the driver self-checks every generated string with its own copy of the documented regular expression.",
    "Distinct keys of one mapping never become equal after replacement.",
]


def sig(ev):
    c = ev["c"]
    classes = sorted((c.get("assign") or {}).keys())
    return {"err": ev["err"], "panic": ev["panic"], "classes": classes if len(classes) == 1 else "many", "empty_p": not ev["p"]}


def desc(ev):
    c = ev["c"]
    a = {k: v["spelled"] for k, v in (c.get("assign") or {}).items()}
    return "InterpolateMatrixPermutation(p=%s) on a step with %s: err=%s %s" % (json.dumps(ev["p"]), json.dumps(a)[:300], ev["err"], ev.get("errmsg", ""))


def to_case(ev):
    return ev["c"]


def run(ctx, replay):
    if replay:
        vlib.replay_main(ctx, replay, "c12", "Trace_MatrixInterp")
        return {}, ASSUMPTIONS
    thorough = ctx.tier == "thorough"
    a = ctx.tlc_model("MC_MatrixInterp", None, cfg_text=CFG % (3 if thorough else 2), label="MC_MatrixInterp", workers=8, timeout=1800)
    cases = vlib.export_cases(a)
    if len(cases) != a.distinct:
        raise vlib.MachineryError("export: %d cases for %d states" % (len(cases), a.distinct))
    if thorough and len(cases) > 400000:
        import random
        random.Random(ctx.seed).shuffle(cases)
        cases = cases[:400000]
    traces, sums = vlib.drive_cases(ctx, "c12", cases, nchunks=8)
    t2, s2 = vlib.drive_gen(ctx, "c12", 8, extra=["-n", 6000 if thorough else 700])
    n, bad = vlib.judge(ctx, "Trace_MatrixInterp", traces + t2, timeout=3000)
    vlib.report_bad(ctx, bad, sig, desc, lambda ev: {"cases": [to_case(ev)], "event": {k: ev[k] for k in ev if k not in ("before", "after")}},
                    vlib.confirm_by_cases(ctx, "c12", "Trace_MatrixInterp"))
    cov = {
        "states": a.distinct, "transitions": a.generated,
        "traces_validated_against_impl": n - len(bad),
        "samples": [s for sm in sums + s2 for s in sm.get("samples", [])][:3],
        "evaluations": n,
        "distinct_nontrivial": sum(s.get("tokens", 0) for s in sums + s2),
        "rule": "TLC: every token string of <= MaxToks tokens from a catalogue of 18 (tokens with inner whitespace, dimension names with . - _, "
                "unknown dimension, 8 near-misses, literals) x 6 permutations (incl. token-shaped values) x 13 position classes, each placed "
                "in a full command step; plus seeded random assignments of all classes at once (a third with YAML aliases to one unknown-field "
                "value, a third with twin token keys whose first value is spelled like the second key). Non-trivial = number of real tokens placed.",
        "exhaustive": True,
        "trace_events_rejected": len(bad),
    }
    return cov, ASSUMPTIONS
