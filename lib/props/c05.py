"""C05 - the ordered map is a correct ordered dictionary under every operation sequence."""
import json
import random
import re

from lib import vlib

MC_CFG = """SPECIFICATION Spec
CONSTANTS
  Keys = {"a", "b", "c"}
  Vals = {"1", "2"}
  MaxOps = %d
  DoExport = %s
  FixReplaceSelf = TRUE
  FixEqualBounds = TRUE
VIEW view
INVARIANTS InvConsistent InvRefines InvObservers InvEqualReflexive InvRangeRename Export
CHECK_DEADLOCK FALSE
"""
EQ_CFG = """SPECIFICATION Spec
CONSTANTS
  Keys = {"a", "b", "c"}
  Vals = {"1", "2"}
  MaxA = %d
  MaxB = %d
  FixReplaceSelf = TRUE
  FixEqualBounds = TRUE
VIEW view
INVARIANTS InvEqualExact InvEqualSymmetric
CHECK_DEADLOCK FALSE
"""

ASSUMPTIONS = [
    "Set/Replace on a nil *Map are outside the property (the repository documents that they panic like Go's map); Delete and every observer on nil are inside.",
    "A nil map is a distinct abstract value (Equal(nil, empty) is false; nil may encode as JSON/YAML null).",
    "Rename-inside-Range covers the callback interpolateOrderedMap uses: Replace on the key just yielded.",
    "Verdicts come only from trace validation (stage C) of events recorded from the real code; stage A failing is a spec bug (exit 2).",
    "Trusted: TLC, the Json/IOUtils community modules, encoding/json and yaml.v3 used by the driver to re-read MarshalJSON/MarshalYAML output.",
]


def segment_of(events, i):
    """The replayable segment that contains bad event i (0-based): from the nearest reset/restore."""
    s = i
    while s > 0 and events[s]["op"] not in ("reset", "restore"):
        s -= 1
    head = events[s]
    steps = []
    for e in events[s + 1:i + 1]:
        if e["op"] == "set":
            steps.append(["set", e["k"], e["v"]])
        elif e["op"] == "replace":
            steps.append(["replace", e["old"], e["new"], e["v"]])
        elif e["op"] == "delete":
            steps.append(["delete", e["k"]])
        elif e["op"] == "observe":
            steps.append(["observe"])
        elif e["op"] == "rangerename":
            steps.append(["rangerename", e["f"]])
    case = {"init": head.get("init", "new"), "vt": head.get("vt", "ss"), "prefix": head.get("hist", []), "steps": steps}
    if head["op"] == "restore" and i == s:
        case["steps"] = []
    return case


def describe(case, ev):
    ops = " ".join("/".join(x if isinstance(x, str) else "f" for x in st) for st in (case["prefix"] + case["steps"]))
    extra = " PANIC: " + ev.get("panicmsg", "") if ev.get("panic") else ""
    obs = {k: ev.get(k) for k in ("len", "iszero", "range", "gets", "equalself") if k in ev}
    return "ordered.Map(%s,%s) after [%s]: event %s not explained by the list-of-pairs spec%s; observed %s" % (
        case["vt"], case["init"], ops, ev["op"], extra, json.dumps(obs)[:300])


def validate(ctx, trace_path, label):
    """Stage C over one trace file; returns (n_events, n_bad, segments_ok). Adds violations (unconfirmed)."""
    n, bad, run = ctx.tlc_trace("Trace_OrderedMap", "Trace_OrderedMap", trace_path, label=label)
    events = None
    segs = 0
    with open(trace_path) as f:
        for line in f:
            if '"op":"reset"' in line or '"op":"restore"' in line:
                segs += 1
    pending = []
    if bad:
        events = vlib.read_ndjson(trace_path)
        for b in bad:
            ev = events[b - 1]
            case = segment_of(events, b - 1)
            pending.append((case, ev))
    return n, bad, segs, pending


def confirm(ctx, case):
    """Re-run one replay case through the real code and the trace spec; True if still unexplained."""
    cf = ctx.path("replay_case_%d.ndjson" % len(ctx.tlc_runs))
    vlib.write_ndjson(cf, [case])
    tr = cf + ".trace"
    ctx.drive(["c05", "-mode", "steps", "-cases", cf, "-out", tr, "-seed", ctx.seed])
    n, bad, _ = ctx.tlc_trace("Trace_OrderedMap", "Trace_OrderedMap", tr, label="replay")
    return bool(bad)


def run(ctx, replay):
    if replay:
        case = json.load(open(replay))["case"]
        if confirm(ctx, case):
            ctx.violations.append({"what": "replayed: still not explained by the specification", "sig": {}, "replay": replay})
        return {}, ASSUMPTIONS

    thorough = ctx.tier == "thorough"
    rnd = random.Random(ctx.seed)
    # ---- stage A: bounded model (design level) ----
    depth_model = 7 if thorough else 5
    depth_export = 5 if thorough else 4
    full_replay_depth = 4 if thorough else 3
    a1 = ctx.tlc_model("MC_OrderedMap", None, cfg_text=MC_CFG % (depth_model, "FALSE"), label="MC_OrderedMap depth<=%d" % depth_model,
                       timeout=3000, coverage=False)
    a2 = ctx.tlc_model("MC_OrderedMap", None, cfg_text=MC_CFG % (depth_export, "TRUE"), label="MC_OrderedMap export depth<=%d" % depth_export,
                       timeout=1800)
    eqd = (4, 4) if thorough else (3, 3)
    a3 = ctx.tlc_model("MC_OrderedMapEq", None, cfg_text=EQ_CFG % eqd, label="MC_OrderedMapEq %d+%d" % eqd, timeout=3000)
    allcases = [json.loads(s) for s in a2.printed("CASE")]
    if len(allcases) != a2.distinct:
        raise vlib.MachineryError("export: %d cases for %d distinct states" % (len(allcases), a2.distinct))
    # the same slot configuration can be reached at several depths: keep its shortest history
    best = {}
    for c in sorted(allcases, key=lambda c: (len(c["hist"]), json.dumps(c["hist"]))):
        best.setdefault((c["init"], json.dumps(c["slots"])), c)
    cases = list(best.values())
    shallow = [c for c in cases if len(c["hist"]) <= full_replay_depth]
    deep = [c for c in cases if len(c["hist"]) > full_replay_depth]
    rnd.shuffle(deep)
    nsample = 4000 if thorough else 400
    chosen = shallow + deep[:nsample]

    # ---- stage B: replay into the real code ----
    nchunks = 16 if thorough else 8
    chunks = [chosen[i::nchunks] for i in range(nchunks)]
    traces = []
    summaries = []
    for i, ch in enumerate(chunks):
        if not ch:
            continue
        cf = ctx.path("cases_%d.ndjson" % i)
        vlib.write_ndjson(cf, ch)
        tr = ctx.path("trace_trans_%d.ndjson" % i)
        sm = ctx.path("sum_trans_%d.json" % i)
        ctx.drive(["c05", "-mode", "trans", "-cases", cf, "-out", tr, "-summary", sm, "-seed", ctx.seed + i])
        traces.append((tr, "trace transitions %d" % i))
        summaries.append(json.load(open(sm)))
    nh = 400 if thorough else 24
    ops = 20000 if thorough else 3000
    per = max(1, nh // nchunks)
    rsum = []
    for i in range(nchunks):
        tr = ctx.path("trace_random_%d.ndjson" % i)
        sm = ctx.path("sum_random_%d.json" % i)
        ctx.drive(["c05", "-mode", "random", "-histories", per, "-ops", ops, "-out", tr, "-summary", sm,
                   "-seed", ctx.seed * 1000 + i])
        traces.append((tr, "trace random %d" % i))
        rsum.append(json.load(open(sm)))

    # ---- stage C: trace validation ----
    import concurrent.futures as cf_
    results = []
    with cf_.ThreadPoolExecutor(max_workers=8) as ex:
        futs = [ex.submit(validate, ctx, tr, lab) for tr, lab in traces]
        for f in futs:
            results.append(f.result())
    n_events = sum(r[0] for r in results)
    n_bad = sum(len(r[1]) for r in results)
    segs = sum(r[2] for r in results)
    pending = [p for r in results for p in r[3]]

    # distinct failure shapes first; confirm each from its replay case before reporting
    seen = {}
    for case, ev in pending:
        key = (ev["op"], bool(ev.get("panic")), ev.get("old") == ev.get("new") if ev["op"] == "replace" else None)
        seen.setdefault(key, (case, ev))
    reported = 0
    for key, (case, ev) in seen.items():
        if reported >= 6:
            break
        if not confirm(ctx, case):
            raise vlib.MachineryError("a rejected event did not reproduce from its replay case: %s" % json.dumps(case)[:500])
        sig = {"op": ev["op"], "panic": bool(ev.get("panic")), "self_rename": key[2]}
        ctx.add_violation(describe(case, ev), sig, {"case": case, "event": ev})
        reported += 1

    drift = sum(s.get("slot_drift", 0) for s in summaries)
    if drift:
        ctx.drift.append("real slot layout differs from OrderedMapImpl in %d of %d replayed states "
                         "(representation drift; verdict is by observers only)" % (drift, len(chosen)))
    transitions = sum(s.get("transitions", 0) for s in summaries)
    random_ops = sum(s.get("ops", 0) for s in rsum)
    samples = (summaries[0].get("samples", []) if summaries else [])[:2] + (rsum[0].get("samples", []) if rsum else [])[:2]
    coverage = {
        "states": a1.distinct + a3.distinct,
        "transitions": a1.generated + a3.generated,
        "traces_validated_against_impl": segs - n_bad,
        "samples": samples,
        "evaluations": n_events,
        "distinct_nontrivial": transitions + random_ops,
        "rule": "model states exported by TLC (one per distinct slot configuration, with its shortest history); from each, every "
                "mutator instance (27) and every rename-inside-Range function (27) is taken on the real map = one distinct "
                "transition; plus every operation of the seeded long histories. Every second rename function also APPENDS from inside the iteration "
                "(rename of an absent key in the callback of the last live entry): the pass must not visit it. The JSON observer also holds the "
                "direct result of MarshalJSON while other maps are encoded. Trivial = none (each is a distinct (state, op) pair).",
        "exhaustive": True,
        "exhaustive_scope": "all operation histories of length <= %d over 3 keys x 2 values from nil/new/zero maps, every transition "
                            "from every reached state replayed on the real map; model-only to depth %d; pairs of maps for Equal to "
                            "depth %d+%d" % (full_replay_depth, depth_model, eqd[0], eqd[1]),
        "replayed_states": len(chosen),
        "sampled_deeper_states": min(len(deep), nsample),
        "trace_events_rejected": n_bad,
        "random_histories": sum(s.get("histories", 0) for s in rsum),
        "random_ops": random_ops,
        "compaction_threshold_crossings": sum(s.get("compactions_crossed", 0) for s in rsum),
        "slot_drift_states": drift,
        "constants": {"Keys": ["a", "b", "c"], "Vals": ["1", "2"], "MaxOps_model": depth_model, "MaxOps_export": depth_export},
    }
    return coverage, ASSUMPTIONS
