"""C01 - any semantic change to signed step content makes verification fail."""
import json
import random

from lib import vlib

ENVNAMES = '  EnvNames = {"A", "B", "C", "Z", "A2", "UNRELATED", "command", "plugins", "repository_url"}\n'
CFG = "SPECIFICATION Spec\nCONSTANTS\n  DoExport = TRUE\n" + ENVNAMES + "INVARIANTS InvImplEqualsRule InvCatalogue Export\nCHECK_DEADLOCK FALSE\n"
ASSUMPTIONS = [
    "Cryptography is symbolic in the model (a signature verifies exactly under its own key pair and algorithm over the same payload); the JOSE library's soundness is assumed. ECDSA malleability and non-canonical base64 trailing bits are not 'altering the record' and are never generated; bit flips are made on the decoded signature bytes.",
    "Step content is drawn from small pools of shapes (plugin source spellings, config shapes, matrix shapes) whose equivalences are exactly those the property states (nil = empty, short = canonical source, empty config = null).",
    "The ES256 crypto.Signer kind has no key set: 'signer plus others' degenerates to the signer itself there.",
]


def sig(ev):
    c = ev["c"]
    return {"kind": c["kind"], "alg": c["key"]["alg"], "accepted": ev["accepted"], "signed": ev["signed"], "panic": ev["panic"]}


def desc(ev):
    c = ev["c"]
    return "Sign(%s)+Verify after mutation '%s' (fieldop=%s algop=%s valueop=%s keyop=%s, key %s): accepted=%s err=%s" % (
        json.dumps(c["orig"])[:250], c["kind"], c["fieldop"], c["algop"], c["valueop"], c["keyop"], c["key"]["alg"], ev["accepted"], ev.get("errmsg"))


def run(ctx, replay):
    if replay:
        vlib.replay_main(ctx, replay, "c01", "Trace_Verify")
        return {}, ASSUMPTIONS
    thorough = ctx.tier == "thorough"
    a = ctx.tlc_model("MC_Verify", None, cfg_text=CFG, label="MC_Verify steps x mutations", workers=16, timeout=3000)
    cases = vlib.export_cases(a)
    if len(cases) != a.distinct:
        raise vlib.MachineryError("export: %d cases for %d states" % (len(cases), a.distinct))
    if not thorough:
        # every (kind, key algorithm) pair at least 25 times, seeded
        rnd = random.Random(ctx.seed)
        rnd.shuffle(cases)
        per = {}
        keep = []
        for c in cases:
            k = (c["kind"], c["key"]["alg"])
            if per.get(k, 0) < 40:
                per[k] = per.get(k, 0) + 1
                keep.append(c)
        cases = keep
    for i, c in enumerate(cases):
        c["rot"] = i * 7 + ctx.seed
    traces, sums = vlib.drive_cases(ctx, "c01", cases, nchunks=16)
    n, bad = vlib.judge(ctx, "Trace_Verify", traces)
    vlib.report_bad(ctx, bad, sig, desc, lambda ev: {"cases": [ev["c"]], "event": {k: ev[k] for k in ev if k != "c"}},
                    vlib.confirm_by_cases(ctx, "c01", "Trace_Verify"))
    kinds = sorted(set(c["kind"] for c in cases))
    cov = {
        "states": a.distinct, "transitions": a.generated,
        "traces_validated_against_impl": n - len(bad),
        "samples": [s for sm in sums for s in sm.get("samples", [])][:4],
        "evaluations": n,
        "distinct_nontrivial": sum(1 for c in cases if c["kind"] != "none"),
        "rule": "TLC: step envs x plugin lists (map, deep, scalar and null configs, one or two plugins) x matrices (none, empty, list, named "
                "single dimension, adjustments, an API-edited ordered map inside an adjustment) x pipeline envs x 4 key kinds (EdDSA, ES512, "
                "PS512 JWKs, ES256 crypto.Signer) x %d single-point mutation kinds (content, verification env, field list, algorithm, value incl. "
                "splice / bit flip / attached payload, key set), inapplicable combinations dropped; quick tier replays a seeded sample with "
                "every (kind, key kind) pair 40 times, thorough replays all. Non-trivial = a real mutation (kind != none)." % len(kinds),
        "exhaustive": thorough,
        "mutation_kinds": kinds,
        "accepted": sum(s.get("accepted", 0) for s in sums),
        "trace_events_rejected": len(bad),
    }
    return cov, ASSUMPTIONS
