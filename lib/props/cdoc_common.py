"""Shared by C03, C08 and C09: whole-document round trips judged by spec/Trace_Doc.tla in three modes."""
import json

from lib import vlib

TCFG = 'SPECIFICATION Spec\nCONSTANTS\n  MODE = "%s"\n  SourceTable <- ST\nINVARIANT Report\nCHECK_DEADLOCK FALSE\n'
MC_CFG = """SPECIFICATION Spec
CONSTANTS
  DoExport = FALSE
  SourceTable <- ST
  FixEmptyAlias = TRUE
  FixEmptySliceAny = TRUE
INVARIANTS InvParseMarshalEqualsNormal
CHECK_DEADLOCK FALSE
"""
DOMAIN = [
    "Documents derivable from the pipeline grammar with the exclusions DESIGN.md section 8 lists: no empty `key`/`label` next to an alias (finding F09), no `command` together with `commands`, no empty plugin list / empty step env / empty matrix, `skip` only true or a non-empty string, no nulls inside command lists, no mapping key `<<` (finding F08), no non-finite floats (finding F06), no duplicate keys.",
    "Plugin sources come from a table of written -> canonical sources (C17 decides canonicalisation itself) or are left-as-written forms.",
    "The renderer's YAML is self-checked: plain yaml.v3 must read every rendered text back as the document it denotes, else the run is a machinery error.",
    "The YAML output is projected with plain yaml.v3 nodes; its two documented format differences (empty pipeline env omitted, disabled cache written {disabled: true}) are named deviations of the specification.",
]


def sig(ev):
    return {"failed": ev["failed"], "panic": ev["panic"], "style": ev["style"].split(" ")[0], "same": ev.get("same", True),
            "probe": ev.get("probe", "")}


def desc(mode):
    def f(ev):
        return "%s: round trip of a %s document rejected (failed=%r %s): %s" % (
            mode, ev["style"], ev["failed"], ev.get("errmsg", "")[:200], ev["src"][:500].replace("\n", "\\n"))
    return f


def model_normalform(ctx):
    return [ctx.tlc_model("MC_NormalForm", None, cfg_text=MC_CFG.replace("  DoExport = FALSE\n", "  DoExport = FALSE\n").replace(
        "INVARIANTS InvParseMarshalEqualsNormal", "INVARIANTS InvParseMarshalEqualsNormal InvNoLoss"),
        label="MC_NormalForm key subsets", workers=8, timeout=1800)]


def run_mode(ctx, replay, mode, assumptions, model_fn=None, extra_traces_fn=None):
    tcfg = TCFG % mode
    if replay:
        vlib.replay_main(ctx, replay, "cdoc", "Trace_Doc", cfg_text=tcfg)
        return {}, assumptions
    thorough = ctx.tier == "thorough"
    mruns = model_fn(ctx) if model_fn else []
    traces, sums = vlib.drive_gen(ctx, "cdoc", 8, extra=["-n", 600 if thorough else 60, "-yaml", 3 if thorough else 2,
                                                          "-repeats", 50 if thorough else 5])
    if extra_traces_fn:
        t2, s2 = extra_traces_fn(ctx)
        traces += t2
    t3, _ = vlib.drive_gen(ctx, "cdoc", 1, extra=["-probes", mode], tag="probes")
    traces += t3
    n, bad = vlib.judge(ctx, "Trace_Doc", traces, cfg_text=tcfg, timeout=3400)
    vlib.report_bad(ctx, bad, sig, desc(mode),
                    lambda ev: {"cases": [{"src": ev["src"], "style": ev["style"], "doc": ev.get("doc") or ev.get("m"), "probe": ev.get("probe", ""), "hist": ev.get("hist", 0), "poison": bool(ev.get("poison")), "deep": ev.get("deep")}],
                                "event": {k: ev[k] for k in ("failed", "errmsg", "style", "same", "kinds") if k in ev}},
                    vlib.confirm_by_cases(ctx, "cdoc", "Trace_Doc", cfg_text=tcfg))
    cov = {
        "states": sum(r.distinct for r in mruns) or n, "transitions": sum(r.generated for r in mruns) or n,
        "traces_validated_against_impl": n - len(bad),
        "samples": [s for sm in sums for s in sm.get("samples", [])][:3],
        "evaluations": n,
        "distinct_nontrivial": sum(s.get("mapping_entries", 0) for s in sums),
        "rule": "seeded documents from the pipeline grammar (bare list / mapping top level, env block, all step kinds incl. scalar and unknown "
                "steps, groups, command/commands forms, key and label aliases, plugins in three written forms, matrix and cache shorthands, "
                "signature, nested unknown fields with hostile keys and values, maps of 9-40 keys), each rendered as JSON and as YAML in "
                "seeded styles (block/flow, quoting, null spellings, anchors + merges by factoring). Non-trivial count = mapping entries "
                "(key positions) carried through the round trip.",
        "exhaustive": False,
        "trace_events_rejected": len(bad),
    }
    return cov, assumptions
