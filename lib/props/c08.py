"""C08 - see lib/props/cdoc_common.py and spec/Trace_Doc.tla (MODE = "C08")."""
from lib.props import cdoc_common as cc

EXTRA = {
    "c03": ["Judged: both outputs carry exactly Normal(doc) as content (mappings compared as sets of pairs; order is C08's subject)."],
    "c08": ["Judged: as C03 but with key order wherever the library stores the mapping order-preservingly (EqHybrid); the merge-position clause is also exercised on anchor/alias/merge graphs (spec/Trace_YamlGraph.tla with ORDER = TRUE) and the programmatic clause by C05's encode/decode observers."],
    "c09": ["Judged: re-parsing the JSON and the YAML output gives the same marshalled pipeline (order in ordered maps included), same step kinds, stand-alone decoders agree, R repeated marshals byte-identical.",
            "On the YAML leg multi-line strings that begin with whitespace are excluded by the property itself; the generator has none."],
}


from lib import vlib
from lib.props import c07


def prog_traces(ctx):
    return vlib.drive_gen(ctx, "cdoc", 4, extra=["-prog", 1500 if ctx.tier == "thorough" else 150], tag="prog")


def run(ctx, replay):
    if replay:
        return cc.run_mode(ctx, replay, "C08", cc.DOMAIN + EXTRA["c08"])
    cov, asm = cc.run_mode(ctx, None, "C08", cc.DOMAIN + EXTRA["c08"], model_fn=cc.model_normalform, extra_traces_fn=prog_traces)
    # merged keys stand where the merge key stood: the anchor/alias/merge graphs of C07, judged WITH order
    gcov, _ = c07.run_graphs(ctx, True, [], small=True)
    cov["states"] += gcov["states"]
    cov["transitions"] += gcov["transitions"]
    cov["traces_validated_against_impl"] += gcov["traces_validated_against_impl"]
    cov["evaluations"] += gcov["evaluations"]
    cov["merge_graph_events"] = gcov["evaluations"]
    cov["trace_events_rejected"] += gcov["trace_events_rejected"]
    return cov, asm
