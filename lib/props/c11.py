"""C11 - matrix permutation validation equals the matrix specification."""
import json

from lib import vlib

CFG = """SPECIFICATION Spec
CONSTANTS
  DimSets <- %s
  ValLists <- %s
  AdjVals = {"u", "w"}
  PermVals = {"u", "w", ""}
  MaxAdj = %d
  Skips = {"absent", "null", "false", "true", "string"}
  ExtraDim = "z"
  DoExport = %s
INVARIANTS InvAlgorithmEqualsRule Export
CHECK_DEADLOCK FALSE
"""
ASSUMPTIONS = [
    "Matrices are those derivable from the pipeline grammar (setup dimensions with non-null value lists); the step's token strings name only dimensions of its own matrix so that C12's unknown-token failure cannot interfere.",
    "A skip value of any non-bool, non-null kind is represented by strings (\"\", \"false\", ... are all truthy per the code's documented rule).",
    "Judged by the rule-shaped Accept(m,p); the error class predicted by the implementation-shaped Validate is compared for drift only.",
]


def sig(ev):
    return {"accepted": ev["accepted"], "class": ev.get("class"), "changed": ev["changed"], "panic": ev["panic"],
            "nil": ev["c"]["m"]["nil"], "nadj": len(ev["c"]["m"]["adjs"])}


def desc(ev):
    return "InterpolateMatrixPermutation(m=%s, p=%s): accepted=%s class=%s changed=%s err=%s" % (
        json.dumps(ev["c"]["m"])[:300], json.dumps(ev["c"]["p"]), ev["accepted"], ev.get("class"), ev["changed"], (ev.get("err") or "")[:120])


def run(ctx, replay):
    if replay:
        vlib.replay_main(ctx, replay, "c11", "Trace_Matrix")
        return {}, ASSUMPTIONS
    thorough = ctx.tier == "thorough"
    runs = [("DimSetsSmall", "ValLists3", 2, True), ("DimSetsTwo", "ValLists2", 1, True)]
    if thorough:
        runs = [("DimSetsSmall", "ValLists3", 2, True), ("DimSetsTwo", "ValLists3", 1, True),
                ("DimSetsTwo", "ValLists2", 2, False), ("DimSetsThree", "ValLists2", 1, False)]
    cases = []
    mruns = []
    for ds, vl, ma, export in runs:
        r = ctx.tlc_model("MC_Matrix", None, cfg_text=CFG % (ds, vl, ma, "TRUE" if export else "FALSE"),
                          label="MC_Matrix %s %s adj<=%d" % (ds, vl, ma), workers=8, timeout=2400)
        mruns.append(r)
        if export:
            cs = vlib.export_cases(r)
            if len(cs) != r.distinct:
                raise vlib.MachineryError("export: %d cases for %d states" % (len(cs), r.distinct))
            cases += cs
    for i, c in enumerate(cases):
        c["rot"] = i * 3 + ctx.seed
    traces, sums = vlib.drive_cases(ctx, "c11", cases, nchunks=8)
    t2, s2 = vlib.drive_gen(ctx, "c11", 8, extra=["-n", 20000 if thorough else 2500])
    n, bad = vlib.judge(ctx, "Trace_Matrix", traces + t2)
    vlib.report_bad(ctx, bad, sig, desc, lambda ev: {"cases": [ev["c"]], "event": ev},
                    vlib.confirm_by_cases(ctx, "c11", "Trace_Matrix"))
    acc = sum(s.get("accepted", 0) for s in sums + s2)
    cov = {
        "states": sum(r.distinct for r in mruns), "transitions": sum(r.generated for r in mruns),
        "traces_validated_against_impl": n - len(bad),
        "samples": [s for sm in sums + s2 for s in sm.get("samples", [])][:4],
        "evaluations": n, "distinct_nontrivial": len(cases) + sum(s.get("events", 0) for s in s2) - 0,
        "rule": "small scope: every (matrix, permutation) pair of the TLC enumeration (anonymous / one / two named dimensions, value "
                "lists of length 0-2, <= 2 adjustments with every skip kind and well-/ill-formed dimension sets, permutations of every "
                "arity incl. unknown dimensions); beyond: seeded random matrices up to 6 dimensions (some with 17-48 values) and 20 adjustments "
                "(null entries, entries without `with`, boundary-shifted tuples). Distinct by "
                "construction (TLC set); random cases counted as generated.",
        "exhaustive": True,
        "accepted_permutations": acc, "rejected_permutations": n - acc,
        "trace_events_rejected": len(bad),
    }
    return cov, ASSUMPTIONS
