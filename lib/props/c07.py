"""C07 - YAML anchors, aliases and merges resolve per the merge rules; cycles error out."""
import json

from lib import vlib

CFG = """SPECIFICATION Spec
CONSTANTS
  MaxA = %d
  MaxB = %d
  MaxR = %d
  MaxC = 1
  DoExport = %s
INVARIANTS InvErrorIffValueCycle InvContent InvEachNode Export
CHECK_DEADLOCK FALSE
"""
TCFG = "SPECIFICATION Spec\nCONSTANT ORDER = %s\nINVARIANT Report\nCHECK_DEADLOCK FALSE\n"
ASSUMPTIONS = [
    "Duplicate explicit keys inside one mapping are invalid YAML and outside the property; merge values are mappings, aliases to mappings or (nested) sequences of those.",
    "Key->value CONTENT is judged here (mappings compared unordered); the position of merged keys is C08's clause and is judged there on the same events.",
    "yaml.v3's scanner/parser is trusted for the text legs; graphs that text cannot express (aliases to anchors defined later) are decoded from directly built *yaml.Node graphs, which can.",
    "Graphs the specification says contain a cycle are decoded in a child process with a deadline, so a stack overflow or hang is observed as a crash/timeout of that input.",
]


def sig(ev):
    return {"mode": ev["mode"], "err": ev["err"], "panic": ev["panic"], "timeout": ev["timeout"], "crash": ev["crash"], "indep": ev["indep"],
            "cyc": ev["c"].get("cyc")}


def desc(ev):
    return "decode (%s) of graph %s root=%s: err=%s %s timeout=%s crash=%s indep=%s result=%s" % (
        ev["mode"], json.dumps(ev["c"]["g"])[:400], ev["c"].get("root"), ev["err"], ev.get("errmsg", ""), ev["timeout"], ev["crash"],
        ev["indep"], json.dumps(ev["result"])[:200])


def run_graphs(ctx, order, prop_assumptions, small=False):
    """Shared by C07 (ORDER = FALSE) and the merge-position clause of C08 (ORDER = TRUE)."""
    thorough = ctx.tier == "thorough"
    tcfg = TCFG % ("TRUE" if order else "FALSE")
    # (A, B, R bounds, how many of the exported graphs are replayed against the real code; None = all)
    bounds = [(2, 1, 1, 60000)] if not thorough else [(2, 1, 1, None), (2, 2, 1, 120000)]
    if small:
        bounds = [(1, 1, 1, None)] if not thorough else [(2, 1, 1, None)]
    cases, mruns = [], []
    for a, b, r, keep in bounds:
        run = ctx.tlc_model("MC_YamlGraph", None, cfg_text=CFG % (a, b, r, "TRUE"), label="MC_YamlGraph A<=%d B<=%d R<=%d" % (a, b, r),
                            workers=16, timeout=3000)
        mruns.append(run)
        cs = vlib.export_cases(run)
        if len(cs) != run.distinct:
            raise vlib.MachineryError("export: %d cases for %d states" % (len(cs), run.distinct))
        if keep is not None and len(cs) > keep:
            import random
            random.Random(ctx.seed).shuffle(cs)        # TLC has checked all of them on the model; a seeded sample meets the code
            cs = cs[:keep]
        cases += cs
    if thorough and not small:
        ctx.tlc_model("MC_YamlGraph", None, cfg_text=CFG % (2, 1, 2, "FALSE"), label="MC_YamlGraph A<=2 B<=1 R<=2 (model only)",
                      workers=16, timeout=3400)
        mruns.append(ctx.tlc_runs[-1])
    mix = lambda k: ((k * 2654435761) & 0xffffffff) >> 12     # TLC lists cases in a regular order: a plain i % k would always meet the same column
    for i, c in enumerate(cases):
        c["rot"] = i
        c["root"] = "R"
        c["akeys"] = i % 2 == 0          # node-graph legs: some keys are aliases to anchored scalars
        c["poison"] = mix(i) % 5 == 2        # the process has just rejected documents (bad keys, a value cycle)
        c["keyval"] = mix(i + 2) % 3 == 1        # anchored int / bool / float KEYS next to the graph, their aliases used as values
        c["dupanc"] = mix(i + 1) % 4 == 1        # anchors share one name (redefined again and again): identity is the node
        if i % 3 == 1:
            # same graph over keys whose YAML spelling is not canonical: x -> 12 (written 0xc, 1_2, +12 ...), y -> true (True, TRUE)
            ren = {"x": "12", "y": "true"}
            c["g"] = {n: (es if n == "S" else [dict(e, k=ren.get(e["k"], e["k"])) for e in es]) for n, es in c["g"].items()}
            c["spell"] = True
    traces, sums = vlib.drive_cases(ctx, "c07", cases, nchunks=12)
    t2, s2 = vlib.drive_gen(ctx, "c07", 8, extra=["-n", (1500 if thorough else 150) // (3 if small else 1)])
    n, bad = vlib.judge(ctx, "Trace_YamlGraph", traces + t2, cfg_text=tcfg, timeout=3000)
    vlib.report_bad(ctx, bad, sig, desc,
                    lambda ev: {"cases": [dict(ev["c"], mode=ev["mode"])], "event": {k: ev[k] for k in ev if k != "c"}},
                    vlib.confirm_by_cases(ctx, "c07", "Trace_YamlGraph", cfg_text=tcfg))
    cov = {
        "states": sum(r.distinct for r in mruns), "transitions": sum(r.generated for r in mruns),
        "traces_validated_against_impl": n - len(bad),
        "samples": [s for sm in sums + s2 for s in sm.get("samples", [])][:3],
        "evaluations": n,
        "distinct_nontrivial": sum(1 for c in cases if any(e["m"] or e["v"]["t"] != "s" for k in ("A", "B", "C", "R") for e in c["g"].get(k, [])[(1 if k == "R" else 0):]))
        + sum(s.get("events", 0) for s in s2) // 4,
        "rule": "TLC: every graph over two anchored mappings (<= MaxA / MaxB entries over keys x,y) and a root (<= MaxR entries over x,y,z); entry = "
                "explicit key with scalar / alias / sequence of aliases, or `<<` with alias / sequences of aliases in both orders; aliases may "
                "point anywhere (self and mutual cycles through values, sequences, merges). Each graph is decoded 4 ways (built node graph, "
                "YAML text, Map.UnmarshalYAML, Parse), in a worker child process. Plus: an un-anchored mapping C defined inline inside A, an "
                "ANCHORED SEQUENCE S (defined at a merge in A, aliased from B and R, possibly containing itself), keys in non-canonical YAML "
                "spellings and alias keys on a third / half of the graphs. Quick replays a seeded sample of 60 000 of the enumerated graphs. "
                "Non-trivial = graphs with at least one alias or merge; random DAGs of 6-40 nodes with back-edges on top.",
        "exhaustive": True,
        "cyclic_graphs": sum(1 for c in cases if c.get("cyc")) + sum(s.get("cyclic_graphs", 0) for s in s2),
        "trace_events_rejected": len(bad),
    }
    return cov, prop_assumptions


def run(ctx, replay):
    if replay:
        vlib.replay_main(ctx, replay, "c07", "Trace_YamlGraph", cfg_text=TCFG % "FALSE")
        return {}, ASSUMPTIONS
    return run_graphs(ctx, False, ASSUMPTIONS)
