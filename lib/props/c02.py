"""C02 - signed steps still verify after JSON/YAML serialisation and re-parse."""
import json

from lib import vlib

MC = 'SPECIFICATION Spec\nCONSTANTS\n  EnvNames = {"A", "B", "C", "UNRELATED"}\nINVARIANTS InvContentPreserved InvStillVerifies\nCHECK_DEADLOCK FALSE\n'
ASSUMPTIONS = [
    "Signable pipelines only (no unknown steps: SignSteps refuses those, C06); documents as in C03/C09 (no C0/C1 controls, no whitespace-led multi-line strings on the YAML leg, no `<<` keys).",
    "The backend's reordering is modelled by shuffling the keys of every mapping of the marshalled output (JSON) / of the YAML node tree before re-parsing; sequences keep their order.",
    "Interpolated variants are used when every generated string happens to be valid interpolation syntax; otherwise that variant is skipped.",
    "Cryptography is real (four key kinds in rotation) in the replay and symbolic in the model.",
]


def sig(ev):
    return {"failed": ev["failed"], "panic": ev["panic"], "format": ev["format"], "entry": ev["entry"],
            "all_verified": all(s["verified"] for s in ev["steps"]), "count_ok": ev["nbefore"] == len(ev["steps"]), "probe": ev.get("probe", "")}


def desc(ev):
    bads = [s.get("verr") for s in ev["steps"] if not s["verified"]]
    return "sign -> %s -> shuffle -> %s (key %s, interpolated=%s): failed=%r %s unverified=%s; document: %s" % (
        ev["format"], ev["entry"], ev["alg"], ev["interpolate"], ev["failed"], ev.get("errmsg", "")[:200], json.dumps(bads)[:300],
        ev["src"][:400].replace("\n", "\\n"))


def run(ctx, replay):
    if replay:
        vlib.replay_main(ctx, replay, "c02", "Trace_RoundTrip")
        return {}, ASSUMPTIONS
    thorough = ctx.tier == "thorough"
    a = ctx.tlc_model("MC_RoundTrip", None, cfg_text=MC, label="MC_RoundTrip", workers=8, timeout=1800)
    traces, sums = vlib.drive_gen(ctx, "c02", 8, extra=["-n", 300 if thorough else 30])
    t3, _ = vlib.drive_gen(ctx, "c02", 1, extra=["-probes", "1"], tag="probes")
    traces += t3
    n, bad = vlib.judge(ctx, "Trace_RoundTrip", traces, timeout=3400)
    vlib.report_bad(ctx, bad, sig, desc,
                    lambda ev: {"cases": [{k: ev[k] for k in ("src", "style", "format", "entry", "alg", "interpolate", "rot", "probe") if k in ev}],
                                "event": {k: ev[k] for k in ("failed", "errmsg", "nbefore") if k in ev}},
                    vlib.confirm_by_cases(ctx, "c02", "Trace_RoundTrip"))
    cov = {
        "states": a.distinct, "transitions": a.generated,
        "traces_validated_against_impl": n - len(bad),
        "samples": [s for sm in sums for s in sm.get("samples", [])][:3],
        "evaluations": n,
        "distinct_nontrivial": sum(s.get("steps_verified", 0) for s in sums),
        "rule": "seeded signable grammar documents (all step kinds but unknown; plugin/matrix/env shorthands; nested configs with every scalar "
                "kind; big maps), rendered as JSON and YAML, x {json, yaml} output x {Parse, CommandStep.UnmarshalJSON} x {plain, interpolated} "
                "with the key kind rotating over EdDSA, ES512, PS512 and an ES256 crypto.Signer. Non-trivial = command-step signatures verified "
                "after the round trip.",
        "exhaustive": False,
        "trace_events_rejected": len(bad),
    }
    return cov, ASSUMPTIONS
