"""C16 - the reflective unmarshaler assigns every input key to exactly one destination."""
import json
import random

from lib import vlib

CFG = """SPECIFICATION Spec
CONSTANTS
  MaxFields = %d
  DoExport = %s
  FixEmptyAlias = TRUE
  FixEmptySliceAny = TRUE
INVARIANTS InvImplEqualsRule InvPartition Export
CHECK_DEADLOCK FALSE
"""
ASSUMPTIONS = [
    "Struct family: the 12 field shapes of spec/Unmarshal.tla (scalars, slices, maps, any, nested and pointer-to-struct, yaml:\"-\", untagged, flag-only and omitempty tags, alias lists) plus an inline map or inline struct; alias names are disjoint from all primary keys and from each other; embedded fields only as two hand-written targets (a struct embedded with the inline flag, exported and unexported type name; reflect.StructOf cannot build them), judged against yaml.v3; a third hand-written target holds sequences of pointers, maps, lists, any, strings and structs, decoded from documents with null items at the start, in the middle and at the end (a null item keeps its position), judged against yaml.v3 as well.",
    "Documents are well-typed for the field that could consume each key; each key carries its own marker value.",
    "The yaml.v3 reference clause applies to zero-valued destinations of alias-free targets without an inline struct (yaml.v3 replaces pre-filled slices where this decoder appends, and does not fill an inline struct's leftovers the same way).",
]


def sig(ev):
    d = ev["c"]["desc"]
    keys = [p[0] for p in ev["c"]["doc"]]
    return {"err": ev["err"], "panic": ev["panic"], "pre": ev["c"]["pre"], "fields": [f["name"] for f in d], "embedded": ev.get("kind") == "embedded",
            "empty_key": "" in keys, "empty_items": any(p[0] == "items" and p[1] == {"t": "q", "e": []} for p in ev["c"]["doc"])}


def desc(ev):
    return "Unmarshal(%s) into struct{%s} (prefilled=%s): got %s; yaml.v3 %s; err=%s" % (
        json.dumps(ev["c"]["doc"])[:300], ",".join(f["name"] + ":" + f["type"] for f in ev["c"]["desc"]), ev["c"]["pre"],
        json.dumps(ev["ordered"])[:300], json.dumps(ev["yamlv3"])[:200], ev.get("errmsg"))


def run(ctx, replay):
    if replay:
        vlib.replay_main(ctx, replay, "c16", "Trace_Unmarshal")
        return {}, ASSUMPTIONS
    thorough = ctx.tier == "thorough"
    a = ctx.tlc_model("MC_Unmarshal", None, cfg_text=CFG % (2, "TRUE"), label="MC_Unmarshal fields<=2", workers=16, timeout=3000)
    cases = vlib.export_cases(a)
    if len(cases) != a.distinct:
        raise vlib.MachineryError("export: %d cases for %d states" % (len(cases), a.distinct))
    mruns = [a]
    wide = [c for c in cases if len(c["ids"]) > 3]      # the wide structs (all fields at once) are few: always replayed
    cases = [c for c in cases if len(c["ids"]) <= 3]
    if thorough:
        b = ctx.tlc_model("MC_Unmarshal", None, cfg_text=CFG % (3, "FALSE"), label="MC_Unmarshal fields<=3 (model only)", workers=16, timeout=3400)
        mruns.append(b)
        random.Random(ctx.seed).shuffle(cases)
        cases = cases[:250000]          # TLC has checked every case on the model; a seeded half meets the real decoder
    else:
        random.Random(ctx.seed).shuffle(cases)
        cases = cases[:40000]
    cases = wide + cases
    for i, c in enumerate(cases):
        c["rot"] = i + ctx.seed
    traces, sums = vlib.drive_cases(ctx, "c16", cases, nchunks=8)
    te, _ = vlib.drive_gen(ctx, "c16", 1, extra=["-embedded", "1"], tag="embedded")
    traces += te
    n, bad = vlib.judge(ctx, "Trace_Unmarshal", traces, timeout=3000)
    vlib.report_bad(ctx, bad, sig, desc, lambda ev: {"cases": [ev["c"]], "event": {k: ev[k] for k in ev if k != "c"}},
                    vlib.confirm_by_cases(ctx, "c16", "Trace_Unmarshal"))
    cov = {
        "states": sum(r.distinct for r in mruns), "transitions": sum(r.generated for r in mruns),
        "traces_validated_against_impl": n - len(bad),
        "samples": [s for sm in sums for s in sm.get("samples", [])][:3],
        "evaluations": n,
        "distinct_nontrivial": sum(1 for c in cases if c["doc"]),
        "programs": max(s.get("struct_types", 0) for s in sums) if sums else 0,
        "rule": "programs = struct types of <= 2 fields from 14 field shapes (scalars, slices, maps, any, struct, pointer, slice of structs, a "
                "camelCase tag key) x {no inline, inline map, inline struct, inline struct repeating outer keys with its own catch-all}; inputs = every "
                "document over the type's primary keys, aliases, two unknown keys and the empty key (absent / well-typed marker value / "
                "null), on zero-valued and pre-filled destinations. Quick tier replays a seeded sample of 40 000 of the (type, document) "
                "pairs TLC enumerated; thorough replays 250 000 and model-checks 3-field types over the 7 interacting shapes. Also keys spelled like the "
                "catch-all field's own lower-cased name, an integer for a float field, pre-filled pointer fields, and 192 WIDE cases (all 15 fields and a "
                "catch-all at once, nearly every key present), always replayed. Non-trivial = non-empty document.",
        "exhaustive": thorough,
        "trace_events_rejected": len(bad),
    }
    return cov, ASSUMPTIONS
