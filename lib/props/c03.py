"""C03 - see lib/props/cdoc_common.py and spec/Trace_Doc.tla (MODE = "C03")."""
from lib.props import cdoc_common as cc

EXTRA = {
    "c03": ["Judged: both outputs carry exactly Normal(doc) as content (mappings compared as sets of pairs; order is C08's subject)."],
    "c08": ["Judged: as C03 but with key order wherever the library stores the mapping order-preservingly (EqHybrid); the merge-position clause is also exercised on anchor/alias/merge graphs (spec/Trace_YamlGraph.tla with ORDER = TRUE) and the programmatic clause by C05's encode/decode observers."],
    "c09": ["Judged: re-parsing the JSON and the YAML output gives the same marshalled pipeline (order in ordered maps included), same step kinds, stand-alone decoders agree, R repeated marshals byte-identical.",
            "On the YAML leg multi-line strings that begin with whitespace are excluded by the property itself; the generator has none."],
}


def run(ctx, replay):
    return cc.run_mode(ctx, replay, "C03", cc.DOMAIN + EXTRA["c03"], model_fn=cc.model_normalform)
