"""C14 - the canonical signing payload is deterministic, order-insensitive and injective."""
import json

from lib import vlib

ENVNAMES = '  EnvNames = {"A", "B", "a", "env::A"}\n'
CFG = "SPECIFICATION Spec\nCONSTANTS\n  DoExport = TRUE\n" + ENVNAMES + "INVARIANTS InvInjective Export\nCHECK_DEADLOCK FALSE\n"
ASSUMPTIONS = [
    "The real payload bytes are those the library logs under WithDebugSigning(true), for Sign and for Verify.",
    "Numbers inside plugin configs are small integers (JCS canonicalises through IEEE doubles; integers beyond 2^53 are outside what 'differ in content' can mean after RFC 8785).",
    "Map insertion order and Go map iteration order are sampled by R repeated runs with freshly built, shuffled maps.",
]


def sig(ev):
    return {"kind": ev.get("kind", "pair"), "panic": ev["panic"], "collide": bool(ev["hx"]) and bool(ev["hy"]) and ev["hx"][0] == ev["hy"][0],
            "stable": len(set(ev["hx"])) <= 1 and len(set(ev["hy"])) <= 1,
            "verify_same": (not ev["hx"]) or ev["vx"] == ev["hx"][0]}


def desc(ev):
    if ev.get("kind") == "perm":
        return "documents equal up to mapping key order give different payloads (or unstable): x=%s y=%s %s" % (ev["docx"][:400], ev["docy"][:400], ev.get("panicmsg", ""))
    return "payloads of x=%s and y=%s: collide=%s stable=%s verify_same=%s %s" % (
        json.dumps(ev["c"]["x"])[:300], json.dumps(ev["c"]["y"])[:300], sig(ev)["collide"], sig(ev)["stable"], sig(ev)["verify_same"], ev.get("panicmsg", ""))


def run(ctx, replay):
    if replay:
        vlib.replay_main(ctx, replay, "c14", "Trace_Payload")
        return {}, ASSUMPTIONS
    thorough = ctx.tier == "thorough"
    a = ctx.tlc_model("MC_Payload", None, cfg_text=CFG, label="MC_Payload pairs", workers=8, timeout=1800)
    cases = vlib.export_cases(a)
    if len(cases) != a.distinct:
        raise vlib.MachineryError("export: %d cases for %d states" % (len(cases), a.distinct))
    for i, c in enumerate(cases):
        c["rot"] = i * 5 + ctx.seed
    traces, sums = vlib.drive_cases(ctx, "c14", cases, nchunks=16, extra=["-repeats", 24 if thorough else 5])
    t2, s2 = vlib.drive_gen(ctx, "c14", 8, extra=["-docs", 400 if thorough else 60, "-repeats", 8 if thorough else 3])
    n, bad = vlib.judge(ctx, "Trace_Payload", traces + t2)

    def to_replay(ev):
        if ev.get("kind") == "perm":
            return {"cases": [{"x": ev["c"]["x"], "y": ev["c"]["y"], "docx": ev["docx"], "docy": ev["docy"]}], "extra": ["-replaydocs", "1"],
                    "event": {k: ev[k] for k in ev if k != "c"}}
        return {"cases": [ev["c"]], "event": {k: ev[k] for k in ev if k != "c"}}
    vlib.report_bad(ctx, bad, sig, desc, to_replay, vlib.confirm_by_cases(ctx, "c14", "Trace_Payload"))
    cov = {
        "states": a.distinct, "transitions": a.generated,
        "traces_validated_against_impl": n - len(bad),
        "samples": [s for sm in sums for s in sm.get("samples", [])][:3],
        "evaluations": n,
        "distinct_nontrivial": sum(1 for c in cases if c["x"] != c["y"]) + sum(s.get("events", 0) for s in s2),
        "rule": "all ordered pairs over the pool of MC_Payload (%d inputs): repository-URL spellings, anonymous + named dimensions, case-distinct names, leftover keys named like fields, history independence (a decoy step signed first with the same env map); also re-spellings (nil/empty env, plugins, matrix; short/canonical source; empty/null "
                "config), single-point variants (command, repo, algorithm, matrix, plugin config kinds incl. 1 vs \"1\", false, 0, \"\"), "
                "boundary shifts (command/repo, env name/value, adjacent plugins, source/config), step env vs pipeline env of the same name, "
                "env::A vs a step variable named env::A; plus generated command-step documents parsed twice with the keys of every mapping "
                "shuffled (document key order). Non-trivial = pairs of different inputs + permuted document pairs." % int(round(len(cases) ** 0.5)),
        "exhaustive": True,
        "must_collide_pairs": sum(1 for c in cases if c["same"] and c["x"] != c["y"]),
        "trace_events_rejected": len(bad),
    }
    return cov, ASSUMPTIONS
