"""C06 - signing a step list signs every command step at every depth, or refuses."""
import json
import random

from lib import vlib

ENVNAMES = '  EnvNames = {"A", "B"}\n'
CFG = "SPECIFICATION Spec\nCONSTANTS\n  MaxNodes = %d\n  MaxDepth = %d\n  DoExport = %s\n" + ENVNAMES + \
      "INVARIANTS InvSuccessMeansAllSigned InvRefusedOnlyForUnknown InvUnknownNeverOk Export\nPROPERTY Termination\nCHECK_DEADLOCK FALSE\n"
ASSUMPTIONS = [
    "Which steps were already signed before a refusal, and the order of Sign calls, are not fixed by the property and are not judged.",
    "Cryptography is real in the replay (each signature is checked with the real Verify and the public key) and symbolic in the model.",
]


def sig(ev):
    return {"err": ev["err"], "panic": ev["panic"], "unchanged": ev["unchanged"], "envunchanged": ev["envunchanged"], "alg": ev["c"]["alg"],
            "all_signed": all(c["signed"] for c in ev["cmds"]), "all_verify": all(c["verifies"] for c in ev["cmds"] if c["signed"])}


def desc(ev):
    return "SignSteps(%s, penv=%s, %s): err=%s commands=%s unchanged=%s env_unchanged=%s" % (
        json.dumps(ev["c"]["tree"])[:400], json.dumps(ev["c"]["penv"]), ev["c"]["alg"], ev.get("errmsg"), json.dumps(ev["cmds"])[:400],
        ev["unchanged"], ev["envunchanged"])


def run(ctx, replay):
    if replay:
        vlib.replay_main(ctx, replay, "c06", "Trace_SignSteps")
        return {}, ASSUMPTIONS
    thorough = ctx.tier == "thorough"
    a = ctx.tlc_model("MC_SignSteps", None, cfg_text=CFG % (4, 3, "TRUE"), label="MC_SignSteps nodes<=4", workers=16, timeout=3000)
    cases = vlib.export_cases(a)
    mruns = [a]
    if thorough:
        b = ctx.tlc_model("MC_SignSteps", None, cfg_text=CFG % (5, 4, "TRUE"), label="MC_SignSteps nodes<=5 depth<=4", workers=16, timeout=3400)
        mruns.append(b)
        cases = vlib.export_cases(b)
    else:
        random.Random(ctx.seed).shuffle(cases)
        cases = cases[:6000]
    # the same trees under a chain of 4..9 nested groups: the walk's rule does not depend on the depth, the bounded model stops at
    # MaxDepth - the trace specification (recursive over the tree) judges these like any other tree
    rnd = random.Random(ctx.seed * 7919 + 1)
    deep = []
    for k, c in enumerate(rnd.sample(cases, min(len(cases), 1500 if thorough else 500))):
        t = c["tree"]
        for _ in range(4 + k % 6):
            t = [{"kind": "group", "env": [], "kids": t}]
        deep.append(dict(c, tree=t))
    # ... and under pipeline envs with more names than the model's A, B (backend-style names, lower case, a leading underscore): every
    # unshadowed pipeline variable is signed, whatever it is called
    more = {"BUILDKITE_GIT_CLEAN_FLAGS": "-ffxdq", "BUILDKITE_PLUGINS_ENABLED": "true", "CI": "true", "buildkite_lower": "l", "_UNDERSCORE": "u", "PATH": "/bin"}
    named = []
    for k, c in enumerate(rnd.sample(cases, min(len(cases), 1200 if thorough else 400))):
        pe = dict(c["penv"]) if isinstance(c["penv"], dict) else {}
        names = sorted(more)
        for j in range(1 + k % len(names)):
            pe[names[(k + j) % len(names)]] = more[names[(k + j) % len(names)]]
        named.append(dict(c, penv=pe))
    cases = cases + deep + named
    traces, sums = vlib.drive_cases(ctx, "c06", cases, nchunks=16)
    n, bad = vlib.judge(ctx, "Trace_SignSteps", traces)
    vlib.report_bad(ctx, bad, sig, desc,
                    lambda ev: {"cases": [{"tree": ev["c"]["tree"], "penv": ev["c"]["penv"], "alg": ev["c"]["alg"], "rot": ev["c"]["rot"]}], "event": {k: ev[k] for k in ev if k != "c"}},
                    vlib.confirm_by_cases(ctx, "c06", "Trace_SignSteps"))
    cov = {
        "states": sum(r.distinct for r in mruns), "transitions": sum(r.generated for r in mruns),
        "traces_validated_against_impl": n - len(bad),
        "samples": [s for sm in sums for s in sm.get("samples", [])][:3],
        "evaluations": n,
        "distinct_nontrivial": sum(1 for c in cases if c["tree"]),
        "rule": "every step tree with <= MaxNodes nodes over {command (step env {} or {A}), wait, input, trigger, unknown, group} nested to "
                "MaxDepth, x pipeline env in {{}, {A}, {A,B}}; key kind rotates over EdDSA, ES512, PS512, ES256 signer. Quick replays a seeded "
                "sample of 6000 of the trees TLC enumerated, thorough all (and one more node); 500 (1500) of them are also run under a chain of 4..9 nested groups, 400 (1200) under pipeline envs with further names (BUILDKITE_*, CI, lower case, leading underscore). Decorations by the case: empty / shadowing step env "
                "values, step-only names, stale signatures (own, or ONE object shared by several steps), empty plugin lists / matrices, leftover "
                "keys, groups without a label. Non-trivial = non-empty tree.",
        "exhaustive": thorough,
        "signatures_made": sum(s.get("signatures_made", 0) for s in sums),
        "trace_events_rejected": len(bad),
    }
    return cov, ASSUMPTIONS
