"""C13 - Parse is total: no panic or hang; a complete result unless it hard-fails."""
import base64
import json

from lib import vlib

MC = "SPECIFICATION Spec\nCONSTANTS\n  MaxEntries = %d\n  MaxDepth = %d\nINVARIANTS InvComplete InvHardOnlyWhenUnavoidable\nCHECK_DEADLOCK FALSE\n"
ASSUMPTIONS = [
    "The input step sequence is read by the harness from the raw YAML nodes with plain yaml.v3 (not the code under test); when it cannot be read unambiguously (yaml.v3 rejects the bytes, duplicate keys, non-core tags/timestamps) only totality, marshalling and warning accounting are judged for that input.",
    "Alias expansion size is bounded: inputs whose node graph expands to more than 2e5 nodes are skipped (stated in the property).",
    "Each Parse runs in a worker child process under recover with a deadline (a stack overflow or a hang is then an observed crash / timeout of that input, not of the harness); byte-level inputs are seeded mutations of a corpus (coverage-guided fuzzing is not used in the registered tiers).",
    "yaml.v3's scanner is observed, not modelled.",
]


def src_of(ev):
    return base64.b64decode(ev["srcb64"]).decode("utf-8", "replace")


def sig(ev):
    s = {"panic": ev["panic"], "timeout": ev["timeout"], "crash": ev.get("crash", False), "outcome": ev["outcome"], "jsonok": ev["jsonok"], "yamlok": ev["yamlok"],
         "stepsislist": ev["stepsislist"], "accounting": ev["nunknown"] == ev["nfallback"], "nonfinite": ev["nonfinite"]}
    s["ws_multiline"] = bool(ev.get("wsmultiline"))
    je, ye = ev.get("jsonerr", ""), ev.get("yamlerr", "")
    s["jsonerr_kind"] = "unsupported-value" if "unsupported value" in je else ("other" if je else "")
    s["yamlerr_kind"] = "emitter-reparse" if ye.startswith("yaml: line") else ("other" if ye else "")
    return s


def desc(ev):
    return "Parse of %r (%s): outcome=%s panic=%s timeout=%s crash=%s json_ok=%s yaml_ok=%s unknown=%d fallbacks_reported=%d kinds=%s %s%s" % (
        src_of(ev)[:300], ev["origin"], ev["outcome"], ev.get("panicmsg", ev["panic"]), ev["timeout"], ev.get("crash"), ev["jsonok"], ev["yamlok"], ev["nunknown"],
        ev["nfallback"], json.dumps(ev["kinds"])[:200], ev.get("jsonerr", ""), ev.get("yamlerr", ""))


def run(ctx, replay):
    if replay:
        vlib.replay_main(ctx, replay, "c13", "Trace_ParseTotal")
        return {}, ASSUMPTIONS
    thorough = ctx.tier == "thorough"
    a = ctx.tlc_model("MC_ParseTotal", None, cfg_text=MC % ((3, 3) if thorough else (3, 2)), label="MC_ParseTotal protocol", workers=8, timeout=3000)
    traces, sums = vlib.drive_gen(ctx, "c13", 8, extra=["-docs", 12 if thorough else 3, "-injectsample", 1 if thorough else 3,
                                                         "-mutations", 40000 if thorough else 3000])
    n, bad = vlib.judge(ctx, "Trace_ParseTotal", traces, timeout=3400)
    vlib.report_bad(ctx, bad, sig, desc, lambda ev: {"cases": [{"srcb64": ev["srcb64"]}], "event": {k: ev[k] for k in ev if k not in ("instep", "outsteps")}},
                    vlib.confirm_by_cases(ctx, "c13", "Trace_ParseTotal"))
    oc = {}
    for s in sums:
        for k, v in (s.get("outcomes") or {}).items():
            oc[k] = oc.get(k, 0) + v
    cov = {
        "states": a.distinct, "transitions": a.generated,
        "traces_validated_against_impl": n - len(bad),
        "samples": [s for sm in sums for s in sm.get("samples", [])][:3],
        "evaluations": n,
        "distinct_nontrivial": oc.get("ok", 0) + oc.get("warn", 0),
        "rule": "grammar documents with one injected type error (each node position replaced by each other kind: mapping, sequence, string, "
                "null, bool, int, float, empty containers), ~80 handwritten edge inputs (anchors, merge cycles, odd keys, deep nesting, "
                "multi-document, BOM/NUL), and seeded byte-level mutations of the corpus with a YAML dictionary. Non-trivial = inputs whose "
                "parse was usable (ok or warning), on which the completeness clauses are judged.",
        "exhaustive": False,
        "outcomes": oc,
        "trace_events_rejected": len(bad),
    }
    return cov, ASSUMPTIONS
