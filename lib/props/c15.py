"""C15 - step kinds are chosen by the documented rule table."""
import json

from lib import vlib

CFG = """SPECIFICATION Spec
CONSTANTS
  Types = {"command", "script", "wait", "waiter", "block", "input", "manual", "trigger", "group", "", "Command", "WAIT", "steps", "commands", "plugins", "unknown", "block "}
  Extras = %s
  Scalars = {"wait", "waiter", "block", "input", "manual", "", "Wait", "WAIT", "waits", "command", "trigger", "group", "wait ", " block", "null", "true", "1"}
  DoExport = TRUE
INVARIANTS InvImplEqualsRule InvSentinel Export
CHECK_DEADLOCK FALSE
"""
ASSUMPTIONS = [
    "Rows carry minimal well-typed values for the keys present, so no typed-field error can force the (separately specified, C13) fallback to an unknown step.",
    "A `type` that is not a string is a hard error of the whole parse (C13's injections), not a row of this table.",
    "Judged by the rule-shaped table RuleKind/RuleScalar; the implementation-shaped dispatch is proved equal to it by TLC on the whole table.",
]


def sig(ev):
    c = ev["c"]
    return {"form": c["form"], "extra": c.get("extra"), "observed": ev["kind"], "top": ev.get("top", False), "warn": ev["warn"], "hard": ev["hard"], "panic": ev["panic"],
            "probe": ev.get("probe", "")}


def desc(ev):
    return "one-step document for row %s parsed as kind=%s sentinel=%s warn=%s hard=%s err=%s" % (
        json.dumps(ev["c"]), ev["kind"], ev["sentinel"], ev["warn"], ev["hard"], (ev.get("err") or "")[:200])


def run(ctx, replay):
    if replay:
        vlib.replay_main(ctx, replay, "c15", "Trace_Steps")
        return {}, ASSUMPTIONS
    thorough = ctx.tier == "thorough"
    extras = '{"<none>", "zzz", "", "Command", "waits", "steps", "label", "key", "commander", "wait_for", "commands_dir", "groups", "trigger_x"}' if thorough else '{"<none>", "zzz", "", "Command", "commander", "wait_for"}'
    a = ctx.tlc_model("MC_Steps", None, cfg_text=CFG % extras, label="MC_Steps table", workers=8, timeout=1200)
    cases = vlib.export_cases(a)
    if len(cases) != a.distinct:
        raise vlib.MachineryError("export: %d cases for %d states" % (len(cases), a.distinct))
    for i, c in enumerate(cases):
        c["rot"] = i * 7 + ctx.seed          # rendering choices (key order, extra position, top-level extra)
    traces, sums = vlib.drive_cases(ctx, "c15", cases, nchunks=8)
    if not thorough:
        t2, s2 = vlib.drive_cases(ctx, "c15", cases[::9], nchunks=8, extra=["-nest", "1"], tag="nest1")
        t3, s3 = vlib.drive_cases(ctx, "c15", cases[::41], nchunks=8, extra=["-nest", "24"], tag="nest24")   # depth is not a key either
        traces += t2 + t3
        sums += s2 + s3
    if thorough:
        t2, s2 = vlib.drive_cases(ctx, "c15", cases, nchunks=8, extra=["-nest", "1"], tag="nest1")
        t3, s3 = vlib.drive_cases(ctx, "c15", cases[::7], nchunks=8, extra=["-nest", "3"], tag="nest3")
        t4, s4 = vlib.drive_cases(ctx, "c15", cases[::11], nchunks=8, extra=["-nest", "24"], tag="nest24")
        traces += t2 + t3 + t4
        sums += s2 + s3 + s4
    tp, _ = vlib.drive_gen(ctx, "c15", 1, extra=["-probes", "1"], tag="probes")
    traces += tp
    n, bad = vlib.judge(ctx, "Trace_Steps", traces)
    vlib.report_bad(ctx, bad, sig, desc,
                    lambda ev: {"cases": [ev["c"]], "extra": ["-nest", ev.get("nest", 0), "-top", "1" if ev.get("top") else "0"], "event": ev},
                    vlib.confirm_by_cases(ctx, "c15", "Trace_Steps"))
    nontrivial = sum(1 for c in cases if c["form"] == "scalar" or c["keys"] or c["type"] != "<absent>")
    cov = {
        "states": a.distinct, "transitions": a.generated,
        "traces_validated_against_impl": n - len(bad),
        "samples": [s for sm in sums for s in sm.get("samples", [])][:4],
        "evaluations": n, "distinct_nontrivial": nontrivial,
        "rule": "rows = all 1024 subsets of the ten kind-determining keys x every type value (16 + absent) x extra keys, plus "
                "17 scalar step strings; distinct by construction (TLC set); trivial = the empty mapping without type",
        "exhaustive": True,
        "trace_events_rejected": len(bad),
    }
    return cov, ASSUMPTIONS
