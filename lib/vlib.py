"""Orchestration library of the /verif framework.

One check run =
  scratch copy of /repo's working tree (+ harness, built with -tags verif)
  (A) TLC on the bounded model   -> design-level result + exported cases
  (B) Go driver on the real code -> recorded events (ND-JSON)
  (C) TLC on the trace spec      -> which events the specification cannot explain
  verdict / known findings / replay files / evidence.

Exit codes: 0 property held on everything explored (known findings printed),
            1 VIOLATION line(s) printed,
            2 machinery error (never a verdict).
"""
import hashlib
import json
import os
import re
import shutil
import subprocess
import sys
import tempfile
import threading
import time

VERIF = os.path.dirname(os.path.dirname(os.path.abspath(__file__)))
REPO = os.environ.get("VERIF_REPO", "/repo")
GOENV = {"GOFLAGS": "-mod=mod", "GOPROXY": "off", "GOSUMDB": "off", "GOTOOLCHAIN": "local"}


class MachineryError(Exception):
    pass


def log(*a):
    print("[verif]", *a, file=sys.stderr, flush=True)


class TLCRun:
    def __init__(self, out, rc, wall):
        self.out = out
        self.rc = rc
        self.wall = wall
        m = re.findall(r"(\d+) states generated, (\d+) distinct states found", out)
        self.generated = int(m[-1][0]) if m else 0
        self.distinct = int(m[-1][1]) if m else 0
        d = re.findall(r"depth of the complete state graph search is (\d+)", out)
        self.depth = int(d[-1]) if d else 0
        self.completed = "Model checking completed. No error has been found." in out
        self.error = None
        if not self.completed:
            e = re.search(r"Error: (.*)", out)
            self.error = e.group(1) if e else "TLC did not complete (rc=%d)" % rc

    def printed(self, prefix):
        """Strings printed with PrintT("<prefix> " \\o ...): returns the payloads."""
        res = []
        for line in self.out.splitlines():
            if line.startswith('"' + prefix + " "):
                try:
                    s = json.loads(line.strip())
                except Exception:
                    continue
                res.append(s[len(prefix) + 1:])
        return res

    def coverage_zero(self):
        """Actions / expressions never evaluated (needs -coverage)."""
        return re.findall(r"^<(\w+) line .*>: 0:0$", self.out, re.M)


class Ctx:
    def __init__(self, prop, tier, seed, keep=False):
        self.prop = prop
        self.tier = tier
        self.seed = seed
        self.t0 = time.time()
        self.keep = keep
        base = os.environ.get("VERIF_SCRATCH_BASE") or tempfile.gettempdir()
        self.scratch = tempfile.mkdtemp(prefix="verif-%s-" % prop, dir=base)
        self.repo = os.path.join(self.scratch, "repo")
        self.spec = os.path.join(self.scratch, "spec")
        self.work = os.path.join(self.scratch, "work")
        os.makedirs(self.work)
        self.driver = os.path.join(self.scratch, "driver")
        self.tlc_runs = []          # (label, TLCRun)
        self.cov = {}               # evidence coverage accumulator
        self.violations = []        # dicts: {what, sig, replay}
        self.known = []             # (entry, what)
        self.drift = []
        self.assumptions = []
        self._n = 0
        self._lock = threading.Lock()

    # ---------- build ----------
    def prepare(self, race=False):
        env = dict(os.environ, **GOENV)
        subprocess.run(["rsync", "-a", "--exclude", ".git", REPO + "/", self.repo + "/"], check=True)
        hdir = os.path.join(self.repo, "internal", "verifharness")
        if os.path.exists(hdir):
            shutil.rmtree(hdir)
        shutil.copytree(os.path.join(VERIF, "harness"), hdir)
        cmd = ["go", "build", "-tags", "verif"]
        if race:
            cmd.append("-race")
        cmd += ["-o", self.driver, "./internal/verifharness"]
        p = subprocess.run(cmd, cwd=self.repo, env=env, stdout=subprocess.PIPE, stderr=subprocess.STDOUT, text=True)
        if p.returncode != 0:
            raise MachineryError("driver does not build against the working tree:\n" + p.stdout[-4000:])
        shutil.copytree(os.path.join(VERIF, "spec"), self.spec)

    def cleanup(self):
        if self.keep or os.environ.get("VERIF_KEEP"):
            log("scratch kept at", self.scratch)
            return
        shutil.rmtree(self.scratch, ignore_errors=True)

    def path(self, name):
        return os.path.join(self.work, name)

    # ---------- TLC ----------
    def tlc(self, module, cfg, label=None, env=None, workers=None, timeout=900, cfg_text=None,
            simulate=None, depth=None, coverage=False, heap=None, extra=None):
        """Run TLC on spec/<module>.tla with spec/<cfg>.cfg (or cfg_text)."""
        with self._lock:
            self._n += 1
            k = self._n
        label = label or "%s/%s" % (module, cfg)
        cfgfile = os.path.join(self.spec, "%s_%d.cfg" % (cfg or module, k))
        if cfg_text is None:
            cfg_text = open(os.path.join(self.spec, cfg + ".cfg")).read()
        with open(cfgfile, "w") as f:
            f.write(cfg_text)
        md = os.path.join(self.scratch, "md%d" % k)
        java = ["java", "-XX:+UseParallelGC", "-Dfile.encoding=UTF-8", "-Xss64m"]
        if heap:
            java.append("-Xmx" + heap)
        java += ["-cp", "/opt/veriftools/tla/tla2tools.jar:/opt/veriftools/tla/CommunityModules-deps.jar", "tlc2.TLC"]
        cmd = ["timeout", str(timeout)] + java + ["-workers", str(workers or "auto"), "-metadir", md,
                                                   "-config", cfgfile, "-nowarning"]
        if simulate:
            cmd += ["-simulate", simulate]
        if depth:
            cmd += ["-depth", str(depth)]
        if coverage:
            cmd += ["-coverage", "1"]
        if extra:
            cmd += extra
        cmd.append(os.path.join(self.spec, module + ".tla"))
        e = dict(os.environ)
        if env:
            e.update({k: str(v) for k, v in env.items()})
        t0 = time.time()
        p = subprocess.run(cmd, cwd=self.spec, env=e, stdout=subprocess.PIPE, stderr=subprocess.STDOUT,
                           text=True, errors="replace")
        run = TLCRun(p.stdout, p.returncode, time.time() - t0)
        run.label = label
        run.cmd = " ".join(cmd[2:])
        self.tlc_runs.append(run)
        shutil.rmtree(md, ignore_errors=True)
        if p.returncode == 124:
            raise MachineryError("TLC timed out after %ds on %s" % (timeout, label))
        log("TLC %-34s %8d distinct %9d generated  %5.1fs %s" % (label, run.distinct, run.generated, run.wall,
                                                                   "" if run.completed else "!! " + str(run.error)))
        return run

    def tlc_model(self, module, cfg, **kw):
        """Stage A: the bounded model must satisfy its own properties, else it is a spec bug (exit 2)."""
        r = self.tlc(module, cfg, **kw)
        if not r.completed:
            raise MachineryError("stage A: the bounded model %s/%s is rejected by TLC (%s) -- a specification "
                                 "bug, never a verdict about the code\n%s" % (module, cfg, r.error, r.out[-3000:]))
        return r

    def tlc_trace(self, module, cfg, trace, label=None, timeout=1800, heap=None, extra_env=None, cfg_text=None):
        """Stage C: validate a recorded trace. Returns (n_events, sorted bad indices (1-based), run)."""
        env = {"VERIF_TRACE": trace}
        if extra_env:
            env.update(extra_env)
        r = self.tlc(module, cfg, label=label or module, env=env, workers=1, timeout=timeout, heap=heap, cfg_text=cfg_text)
        done = r.printed("VERIF_DONE")
        if not r.completed or not done:
            raise MachineryError("stage C: trace validation by %s did not finish: %s\n%s" % (module, r.error, r.out[-3000:]))
        d = json.loads(done[-1])
        if d.get("mach"):
            raise MachineryError("stage C: %s says %d events are malformed (harness/spec encoding mismatch, not a verdict), first index %s"
                                 % (module, len(d["mach"]), sorted(d["mach"])[:3]))
        return int(d["n"]), sorted(int(x) for x in d["bad"]), r

    # ---------- driver ----------
    def drive(self, args, timeout=3600, env=None):
        e = dict(os.environ)
        e["VERIF_SEED"] = str(self.seed)
        if env:
            e.update(env)
        t0 = time.time()
        p = subprocess.run(["timeout", str(timeout), self.driver] + [str(a) for a in args], cwd=self.work, env=e,
                           stdout=subprocess.PIPE, stderr=subprocess.PIPE, text=True, errors="replace")
        if p.returncode != 0:
            raise MachineryError("driver %s failed (rc=%d): %s" % (args[:3], p.returncode, (p.stderr or p.stdout)[-3000:]))
        log("driver %-40s %5.1fs" % (" ".join(str(a) for a in args[:4]), time.time() - t0))
        return p.stdout

    # ---------- verdicts ----------
    def add_violation(self, what, sig, replay_obj):
        """Record an event the spec cannot explain. sig: dict used to match known findings."""
        kf = match_known(self.prop, sig)
        if kf is not None:
            if not any(k[0]["id"] == kf["id"] for k in self.known):
                self.known.append((kf, what))
            return "known"
        h = hashlib.sha1(json.dumps(replay_obj, sort_keys=True).encode()).hexdigest()[:12]
        os.makedirs(os.path.join(VERIF, "replays"), exist_ok=True)
        rp = os.path.join(VERIF, "replays", "%s-%s.json" % (self.prop, h))
        replay_obj = dict(replay_obj, property=self.prop, what=what, sig=sig, seed=self.seed, tier=self.tier)
        with open(rp, "w") as f:
            json.dump(replay_obj, f, indent=1)
        self.violations.append({"what": what, "sig": sig, "replay": rp})
        return "violation"


def load_known():
    p = os.path.join(VERIF, "known_findings.json")
    if not os.path.exists(p):
        return []
    return json.load(open(p)).get("findings", [])


def match_known(prop, sig):
    for e in load_known():
        if e.get("status") != "known" or prop not in e.get("properties", [e.get("property")]):
            continue
        m = e.get("match", {})
        if m and all(sig.get(k) == v for k, v in m.items()):
            return e
    return None


def read_ndjson(path):
    out = []
    with open(path) as f:
        for line in f:
            if line.strip():
                out.append(json.loads(line))
    return out


def write_ndjson(path, rows):
    with open(path, "w") as f:
        for r in rows:
            f.write(json.dumps(r, ensure_ascii=True) + "\n")


def write_evidence(ctx, coverage, assumptions, status):
    tl = [dict(label=r.label, distinct=r.distinct, generated=r.generated, depth=r.depth, wall_s=round(r.wall, 2), cmd=r.cmd)
          for r in ctx.tlc_runs]
    cov = dict(coverage)
    cov.setdefault("checker_cmd", "; ".join(r.cmd for r in ctx.tlc_runs[:3]))
    cov["tlc_runs"] = tl
    cov["known_findings_seen"] = [k[0]["id"] for k in ctx.known]
    cov["drift"] = ctx.drift[:20]
    cov["status"] = status
    ev = {
        "property_id": ctx.prop,
        "tier": ctx.tier,
        "seed": ctx.seed,
        "level": "model_checking",
        "coverage": cov,
        "assumptions": assumptions,
        "wall_s": round(time.time() - ctx.t0, 2),
        "violations": len(ctx.violations),
    }
    os.makedirs(os.path.join(VERIF, "evidence"), exist_ok=True)
    with open(os.path.join(VERIF, "evidence", ctx.prop + ".json"), "w") as f:
        json.dump(ev, f, indent=1)
    return ev


def run_check(prop, tier, seed, fn, replay=None, keep=False, race=False):
    """fn(ctx, replay) -> (coverage dict, assumptions list). Handles build, exit codes, evidence."""
    ctx = Ctx(prop, tier, seed, keep=keep)
    rc = 2
    try:
        ctx.prepare(race=race)
        coverage, assumptions = fn(ctx, replay)
        for kf, what in ctx.known:
            print("KNOWN-FINDING: property=%s %s [%s]" % (prop, kf["what"], kf["id"]))
        for d in ctx.drift[:5]:
            print("DRIFT property=%s %s" % (prop, d))
        for v in ctx.violations:
            print("VIOLATION property=%s replay=%s" % (prop, v["replay"]))
            print("  " + v["what"][:600])
        status = "violation" if ctx.violations else "held"
        if replay is None:
            write_evidence(ctx, coverage, assumptions, status)
        rc = 1 if ctx.violations else 0
        print("%s property=%s tier=%s seed=%d wall=%.1fs" % ("FAIL" if rc else "PASS", prop, tier, seed, time.time() - ctx.t0))
    except MachineryError as e:
        print("MACHINERY-ERROR property=%s: %s" % (prop, e), file=sys.stderr)
        rc = 2
    except subprocess.CalledProcessError as e:
        print("MACHINERY-ERROR property=%s: %s" % (prop, e), file=sys.stderr)
        rc = 2
    finally:
        ctx.cleanup()
    return rc


# ---------------------------------------------------------------------------
# helpers shared by the relational checks (cases -> driver -> judged events)
# ---------------------------------------------------------------------------
import concurrent.futures as _cf


def export_cases(run, prefix="CASE"):
    return [json.loads(s) for s in run.printed(prefix)]


def drive_cases(ctx, cmd, cases, nchunks=8, extra=None, tag="cases"):
    """Split cases over nchunks driver processes. Returns ([trace paths], [summaries])."""
    extra = extra or []
    chunks = [cases[i::nchunks] for i in range(nchunks)]
    jobs = []
    for i, ch in enumerate(chunks):
        if not ch:
            continue
        cf = ctx.path("%s_%s_%d.ndjson" % (cmd, tag, i))
        write_ndjson(cf, ch)
        jobs.append((cf, ctx.path("%s_%s_trace_%d.ndjson" % (cmd, tag, i)), ctx.path("%s_%s_sum_%d.json" % (cmd, tag, i)), i))

    def one(j):
        cf, tr, sm, i = j
        ctx.drive([cmd, "-cases", cf, "-out", tr, "-summary", sm, "-seed", ctx.seed * 100 + i] + extra)
        return tr, (json.load(open(sm)) if os.path.exists(sm) else {})
    with _cf.ThreadPoolExecutor(max_workers=8) as ex:
        res = list(ex.map(one, jobs))
    return [r[0] for r in res], [r[1] for r in res]


def drive_gen(ctx, cmd, n, extra=None, tag="gen"):
    """n generator-mode driver processes (seeded random cases beyond TLC's bounds)."""
    extra = extra or []

    def one(i):
        tr = ctx.path("%s_%s_trace_%d.ndjson" % (cmd, tag, i))
        sm = ctx.path("%s_%s_sum_%d.json" % (cmd, tag, i))
        ctx.drive([cmd, "-out", tr, "-summary", sm, "-seed", ctx.seed * 1000 + 17 * i + 1] + extra)
        return tr, (json.load(open(sm)) if os.path.exists(sm) else {})
    with _cf.ThreadPoolExecutor(max_workers=8) as ex:
        res = list(ex.map(one, range(n)))
    return [r[0] for r in res], [r[1] for r in res]


def judge(ctx, module, traces, cfg=None, label=None, timeout=1800, heap=None, extra_env=None, cfg_text=None):
    """Stage C for relational specs: returns (n_events, [(trace_path, index0, event)])."""
    cfg = cfg or module

    def one(tr):
        if os.path.getsize(tr) == 0:
            return 0, []
        n, bad, _ = ctx.tlc_trace(module, cfg, tr, label="%s %s" % (label or module, os.path.basename(tr)[-24:]),
                                  timeout=timeout, heap=heap, extra_env=extra_env, cfg_text=cfg_text)
        out = []
        if bad:
            evs = read_ndjson(tr)
            out = [(tr, b - 1, evs[b - 1]) for b in bad]
        return n, out
    with _cf.ThreadPoolExecutor(max_workers=6) as ex:
        res = list(ex.map(one, traces))
    return sum(r[0] for r in res), [b for r in res for b in r[1]]


def report_bad(ctx, bad, sig_fn, desc_fn, replay_fn, confirm_fn, max_report=6):
    """Group rejected events by signature, confirm one representative per group from its replay object,
    then record it as violation or known finding."""
    groups = {}
    where = {}
    for tr, i, ev in bad:
        sig = sig_fn(ev)
        k = json.dumps(sig, sort_keys=True)
        groups.setdefault(k, []).append(ev)
        where.setdefault(k, (tr, i))
    reported = 0
    confirmed = 0
    unreproduced = []
    for k, evs in groups.items():
        sig = json.loads(k)
        ev = evs[0]
        rep = replay_fn(ev)
        if match_known(ctx.prop, sig) is None:
            if reported >= max_report:
                continue
            if not confirm_fn(rep):
                # The event may depend on what the same driver PROCESS did before it (state left behind in the
                # library: a cache, a pool, a table edited in place). Replay it with its history: the cases that
                # preceded it in the same trace, in growing windows; reproduced = the LAST case is rejected again.
                rep = _confirm_with_history(ctx, where[k], rep, replay_fn, confirm_fn)
                if rep is None:
                    # not a verdict by itself; it only decides the run when NO group of rejected events reproduces (below)
                    unreproduced.append(json.dumps(replay_fn(ev))[:600])
                    continue
            reported += 1
            confirmed += 1
        ctx.add_violation(desc_fn(ev) + (" (+%d more events with this signature)" % (len(evs) - 1) if len(evs) > 1 else ""),
                          sig, rep)
    if unreproduced:
        if confirmed == 0:
            raise MachineryError("a rejected event did not reproduce from its replay object (alone, or after the cases "
                                 "that preceded it in its driver process): %s" % unreproduced[0])
        # some other group of rejected events DID reproduce against the real code: that is the verdict; these are only noted
        log("note: %d more group(s) of rejected events did not reproduce from their replay objects: %s" % (len(unreproduced), unreproduced[0][:300]))
    return groups


def _confirm_with_history(ctx, at, rep, replay_fn, confirm_fn):
    tr, i = at
    if "cases" not in rep or len(rep["cases"]) != 1:
        return None
    try:
        evs = read_ndjson(tr)
    except Exception:
        return None
    for window in (16, 128, 1024, len(evs)):
        lo = max(0, i - window)
        cases = []
        for e in evs[lo:i]:
            try:
                r = replay_fn(e)
            except Exception:
                r = None
            if r and len(r.get("cases") or []) == 1:
                cases.append(r["cases"][0])
        hist = dict(rep, cases=cases + rep["cases"], history=len(cases))
        if confirm_fn(hist):
            return hist
        if lo == 0:
            break
    return None


def confirm_by_cases(ctx, cmd, module, extra=None, cfg=None, extra_env=None, cfg_text=None):
    """Standard confirmation: re-run the driver on the single case of the replay object and re-judge."""
    def fn(rep):
        # A defect that depends on Go's map iteration order need not show on every run of the same case:
        # the case is re-run a few times; it counts as reproduced only when some run is rejected again.
        for attempt in range(10):
            with ctx._lock:
                ctx._n += 1
                k = ctx._n
            cf = ctx.path("confirm_%d.ndjson" % k)
            write_ndjson(cf, rep["cases"])
            tr = cf + ".trace"
            ctx.drive([cmd, "-cases", cf, "-out", tr, "-seed", ctx.seed] + (rep.get("extra") or extra or []))
            n, bad, _ = ctx.tlc_trace(module, cfg or module, tr, label="confirm", extra_env=extra_env, cfg_text=cfg_text)
            if rep.get("history"):
                if n in bad:          # with a history, the case under test is the last one
                    return True
            elif bad:
                return True
        return False
    return fn


def replay_main(ctx, replay, cmd, module, cfg=None, extra_env=None, cfg_text=None):
    rep = json.load(open(replay))
    if confirm_by_cases(ctx, cmd, module, cfg=cfg, extra_env=extra_env, cfg_text=cfg_text)(rep):
        ctx.violations.append({"what": "replayed: still not explained by the specification: " + rep.get("what", ""),
                               "sig": rep.get("sig", {}), "replay": replay})
