SPECIFICATION Spec
INVARIANT Report
CHECK_DEADLOCK FALSE
