SPECIFICATION Spec
CONSTANTS
  N = 3
  RenameInPlace = TRUE
  FixReplaceSelf = TRUE
  FixEqualBounds = TRUE
INVARIANTS InvAtDone InvNothingLostMidway
PROPERTY Termination
CHECK_DEADLOCK FALSE
