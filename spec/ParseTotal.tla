----------------------------- MODULE ParseTotal -----------------------------
(***************************************************************************)
(* C13: the warning / fallback protocol of Parse, abstractly.              *)
(* An input step entry is one of                                           *)
(*   [cls |-> "typed",    kind]        decodes into its typed step         *)
(*   [cls |-> "badtyped", kind]        kind chosen, but a typed field does *)
(*                                     not decode: falls back to unknown   *)
(*   [cls |-> "nokind"]                no kind can be chosen: unknown      *)
(*   [cls |-> "scalar",   ok]          a string (valid scalar step or not) *)
(*   [cls |-> "group",    kids, bad]   a group (bad: a typed field of the  *)
(*                                     group itself does not decode)       *)
(*   [cls |-> "hard"]                  not a string or mapping, or `type`  *)
(*                                     is not a string: the parse fails    *)
(* ParseSteps mirrors Steps.UnmarshalOrdered / unmarshalStep /             *)
(* stepFromMap / GroupStep.UnmarshalOrdered: a hard error aborts, a        *)
(* warning is collected and unmarshalling continues.                       *)
(***************************************************************************)
EXTENDS Sequences, Integers, FiniteSets

RECURSIVE ParseSteps(_), ParseStep(_)
Hard == [hard |-> TRUE, steps |-> <<>>, warns |-> 0]
\* result of one entry: [hard, step: [kind, verbatim, kids], warns: number of fallback warnings]
ParseStep(e) ==
    CASE e.cls = "typed" -> [hard |-> FALSE, step |-> [kind |-> e.kind, verbatim |-> FALSE, kids |-> <<>>], warns |-> 0]
      [] e.cls = "badtyped" -> [hard |-> FALSE, step |-> [kind |-> "unknown", verbatim |-> TRUE, kids |-> <<>>], warns |-> 1]
      [] e.cls = "nokind" -> [hard |-> FALSE, step |-> [kind |-> "unknown", verbatim |-> TRUE, kids |-> <<>>], warns |-> 1]
      [] e.cls = "scalar" -> (IF e.ok THEN [hard |-> FALSE, step |-> [kind |-> "scalar", verbatim |-> TRUE, kids |-> <<>>], warns |-> 0]
                              ELSE [hard |-> FALSE, step |-> [kind |-> "unknown", verbatim |-> TRUE, kids |-> <<>>], warns |-> 1])
      [] e.cls = "group" ->
            LET inner == ParseSteps(e.kids) IN
            IF inner.hard \/ e.bad
            THEN [hard |-> FALSE, step |-> [kind |-> "unknown", verbatim |-> TRUE, kids |-> <<>>], warns |-> 1]   \* a hard error inside: the group falls back
            ELSE [hard |-> FALSE, step |-> [kind |-> "group", verbatim |-> FALSE, kids |-> inner.steps], warns |-> inner.warns]
      [] OTHER -> [hard |-> TRUE, step |-> [kind |-> "none", verbatim |-> FALSE, kids |-> <<>>], warns |-> 0]
ParseSteps(es) ==
    IF Len(es) = 0 THEN [hard |-> FALSE, steps |-> <<>>, warns |-> 0]
    ELSE LET h == ParseStep(Head(es)) IN
         IF h.hard THEN Hard
         ELSE LET t == ParseSteps(Tail(es)) IN
              IF t.hard THEN Hard ELSE [hard |-> FALSE, steps |-> <<h.step>> \o t.steps, warns |-> h.warns + t.warns]

(* ---------------- rule-shaped ---------------- *)
RECURSIVE CountUnknown(_), ShapeMatches(_, _)
CountUnknown(steps) == IF Len(steps) = 0 THEN 0
                       ELSE (IF Head(steps).kind = "unknown" THEN 1 ELSE 0) + CountUnknown(Head(steps).kids) + CountUnknown(Tail(steps))
\* one step per entry, same order, recursively inside groups that stayed groups
ShapeMatches(es, steps) ==
    /\ Len(es) = Len(steps)
    /\ \A i \in 1..Len(es) : steps[i].kind = "group" => (es[i].cls = "group" /\ ShapeMatches(es[i].kids, steps[i].kids))
Complete(es, r) == r.hard \/ (ShapeMatches(es, r.steps) /\ r.warns = CountUnknown(r.steps)
                              /\ \A i \in 1..Len(r.steps) : r.steps[i].kind = "unknown" => r.steps[i].verbatim)
=============================================================================
