------------------------------ MODULE Trace_Doc ------------------------------
(* C03 / C08 / C09 trace validation over whole-document round trips of the     *)
(* real Parse, json.Marshal and yaml.Marshal.  MODE selects the property:      *)
(*  "C03"  both outputs carry exactly Normal(doc) (content; order ignored)     *)
(*  "C08"  ... with key ORDER wherever the library keeps mappings ordered      *)
(*  "C09"  re-parsing either output gives the same pipeline again (kinds,      *)
(*         values, order in ordered maps), the stand-alone decoders agree,     *)
(*         repeated marshalling is byte-identical                              *)
EXTENDS NormalForm, Json, IOUtils
CONSTANT MODE
Trace == ndJsonDeserialize(IOEnv.VERIF_TRACE)
N == Len(Trace)
VARIABLES l, bad, mach
vars == <<l, bad, mach>>

ST == [x \in {"docker#v1", "my-org/thing#main", "ecr", "my-org/deploy#v1.4.0%252Bbuild7"} |->
         CASE x = "docker#v1" -> "github.com/buildkite-plugins/docker-buildkite-plugin#v1"
           [] x = "my-org/deploy#v1.4.0%252Bbuild7" -> "github.com/my-org/deploy-buildkite-plugin#v1.4.0%2Bbuild7"    \* (the ref of a short form is percent-decoded once)
           [] x = "my-org/thing#main" -> "github.com/my-org/thing-buildkite-plugin#main"
           [] x = "ecr" -> "github.com/buildkite-plugins/ecr-buildkite-plugin"]

\* The two documented format differences of the YAML output (named deviations):
\* an empty pipeline env is omitted, a disabled cache is written {disabled: true}.
RECURSIVE YStep(_)
YStep(s) ==
    IF s.t # "m" THEN s
    ELSE Map([i \in 1..Len(s.kv) |->
            IF s.kv[i][1] = "cache" /\ s.kv[i][2] = Bool(FALSE) /\ StepRole(s) = "cmd" THEN <<"cache", Map(<< <<"disabled", Bool(TRUE)>> >>)>>
            ELSE IF s.kv[i][1] = "steps" /\ StepRole(s) = "grp" /\ s.kv[i][2].t = "q"
                 THEN <<"steps", SeqV([j \in 1..Len(s.kv[i][2].e) |-> YStep(s.kv[i][2].e[j])])>>
            ELSE s.kv[i]])
DropEmptyEnv(n) == Map(SelectSeq(n.kv, LAMBDA p : ~(p[1] = "env" /\ p[2].t = "m" /\ Len(p[2].kv) = 0)))
YamlView(n) == LET m == DropEmptyEnv(n) IN
    Map([i \in 1..Len(m.kv) |-> IF m.kv[i][1] = "steps" THEN <<"steps", SeqV([j \in 1..Len(m.kv[i][2].e) |-> YStep(m.kv[i][2].e[j])])>> ELSE m.kv[i]])

Usable(e) == ~e.panic /\ e.failed = ""
C03OK(e) == LET n == Normal(e.doc) IN EqUnord(e.jav, n) /\ EqUnord(e.yav, YamlView(n))
C08OK(e) == LET n == Normal(e.doc) IN EqHybrid(e.jav, n, "pipeline") /\ EqHybrid(e.yav, YamlView(n), "pipeline")
C09OK(e) ==
    /\ EqHybrid(e.j2, e.jav, "pipeline")                                   \* idempotent through JSON
    /\ EqHybrid(DropEmptyEnv(e.j3), DropEmptyEnv(e.jav), "pipeline")       \* and through YAML: both formats carry the same data
    /\ e.kinds[2] = e.kinds[1] /\ e.kinds[3] = e.kinds[1]                   \* same step kinds
    /\ e.same                                                               \* byte-identical repeated marshalling
    /\ EqOrd(e.o2, e.o1) /\ EqOrd(e.o3, e.o1)                               \* the re-parsed OBJECTS equal the first, field by field (harness/objproj.go)
    /\ EqOrd(e.o1after, e.o1)                                               \* and marshalling left the first one as it was
    /\ \A i \in 1..Len(e.solo) :                                            \* stand-alone decoders
          EqHybrid(e.solo[i][2], e.solo[i][1], IF e.solo[i][3] = "step" THEN "stepitem" ELSE "pluginlist")
\* C08, programmatic clause: an ordered map built through the API, encoded and decoded again by the library
ProgOK(e) == /\ ~e.panic /\ e.failed = ""
             /\ EqOrd(e.jback, e.m) /\ EqOrd(e.yback, e.m)            \* same keys, values and order
             /\ e.equalj /\ e.equaly                                  \* and the library's own Equal agrees
EventOK(e) == IF "kind" \in DOMAIN e /\ e.kind = "prog" THEN ProgOK(e) ELSE Usable(e) /\ CASE MODE = "C03" -> C03OK(e) [] MODE = "C08" -> C08OK(e) [] MODE = "C09" -> C09OK(e)

Init == l = 1 /\ bad = {} /\ mach = {}
Next == /\ l <= N
        /\ l' = l + 1
        /\ mach' = mach
        /\ bad' = IF EventOK(Trace[l]) THEN bad ELSE bad \cup {l}
Spec == Init /\ [][Next]_vars
Report == (l = N + 1) => PrintT("VERIF_DONE " \o ToJson([n |-> N, bad |-> bad, mach |-> mach]))
=============================================================================
