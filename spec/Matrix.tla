------------------------------- MODULE Matrix -------------------------------
(***************************************************************************)
(* C11: validation of a job's matrix permutation.                          *)
(*                                                                         *)
(* A matrix is [nil, setup, adjs]: setup maps each dimension name (""  is  *)
(* the anonymous dimension) to its list of values (possibly empty); adjs   *)
(* is a sequence of [with, skip] where `with` maps dimension names to one  *)
(* value each and skip is one of "absent" "null" "false" "true" "string".  *)
(* A permutation maps dimension names to one value each.                   *)
(*                                                                         *)
(*   Validate - implementation-shaped: the checks of                       *)
(*              Matrix.validatePermutation in the order the Go code makes  *)
(*              them, with its early returns and its `valid` flag;         *)
(*   Accept   - rule-shaped: the matrix specification.                     *)
(***************************************************************************)
EXTENDS Sequences, Integers, FiniteSets

Range(s) == {s[i] : i \in 1..Len(s)}

ShouldSkip(k) == k \in {"true", "string"}          \* bool true, or any non-bool non-null value

(* ---------------- rule-shaped ---------------- *)
Dims(m) == DOMAIN m.setup
WellFormed(m, a) == DOMAIN a.with = Dims(m)
Matches(p, a) == \A d \in DOMAIN p : d \in DOMAIN a.with /\ a.with[d] = p[d]
BaseCombination(m, p) == \A d \in DOMAIN p : p[d] \in Range(m.setup[d])

Accept(m, p) ==
    IF m.nil THEN DOMAIN p = {}                     \* no matrix: only the empty permutation
    ELSE /\ DOMAIN p = Dims(m)                      \* names each dimension (once: it is a map)
         /\ \A i \in 1..Len(m.adjs) : WellFormed(m, m.adjs[i])
         /\ ~\E i \in 1..Len(m.adjs) : Matches(p, m.adjs[i]) /\ ShouldSkip(m.adjs[i].skip)
         /\ (BaseCombination(m, p) \/ \E i \in 1..Len(m.adjs) : Matches(p, m.adjs[i]))

(* ---------------- implementation-shaped ---------------- *)
RECURSIVE AdjLoop(_, _, _, _)
AdjLoop(m, p, j, valid) ==
    IF j > Len(m.adjs) THEN (IF valid THEN "ok" ELSE "no_match")
    ELSE LET a == m.adjs[j] IN
         IF Cardinality(DOMAIN a.with) # Cardinality(Dims(m)) THEN "adj_length"
         ELSE IF \E d \in DOMAIN a.with : d \notin Dims(m) THEN "adj_dimension"
         ELSE IF ~(\A d \in DOMAIN p : p[d] = a.with[d]) THEN AdjLoop(m, p, j + 1, valid)
         ELSE IF ShouldSkip(a.skip) THEN "skipped"
         ELSE AdjLoop(m, p, j + 1, TRUE)       \* no early return: a later duplicate may still skip

Validate(m, p) ==
    IF m.nil THEN (IF DOMAIN p # {} THEN "nil_matrix" ELSE "ok")
    ELSE IF Cardinality(DOMAIN p) # Cardinality(Dims(m)) THEN "perm_length"
    ELSE IF \E d \in DOMAIN p : d \notin Dims(m) THEN "perm_dimension"
    ELSE AdjLoop(m, p, 1, BaseCombination(m, p))
=============================================================================
