----------------------------- MODULE NormalForm -----------------------------
(***************************************************************************)
(* C03 / C08 / C09: the documented normal form of a pipeline document,     *)
(* rule-shaped, over abstract values (AV).                                 *)
(*                                                                         *)
(* Normal(d) is the data of document d after parse + marshal:              *)
(*  - a bare step list becomes `steps`;                                    *)
(*  - a step's kind is chosen by the documented table (module Steps);      *)
(*  - command steps: `command`/`commands` collapse into one newline-joined *)
(*    `command`; `id`/`identifier` fill `key` and `name` fills `label`     *)
(*    only when those are absent; plugins become a list of single-entry    *)
(*    mappings keyed by canonical source, empty configs null; env and      *)
(*    matrix scalars become strings; matrix, cache shorthands take their   *)
(*    canonical shapes;                                                    *)
(*  - group steps: `steps` normalised recursively, always present;         *)
(*  - every other key and value, at every depth, unchanged.                *)
(* EqHybrid compares two AVs: mappings backed by order-preserving storage  *)
(* must agree in key ORDER (C08), the others as sets of pairs.             *)
(***************************************************************************)
EXTENDS AV, Steps, TLC

CONSTANT SourceTable          \* written plugin source -> canonical source (anything else is left as written)

Num(s) == [t |-> "n", v |-> s]
Bool(b) == [t |-> "b", v |-> b]
EmptySeq == [t |-> "q", e |-> <<>>]
Map(kv) == [t |-> "m", kv |-> kv]
SeqV(e) == [t |-> "q", e |-> e]

MHas(m, k) == HasKey(m, k)
MGet(m, k) == Get(m, k)
\* drop the listed keys, keep the rest in order
MDrop(m, ks) == SelectSeq(m.kv, LAMBDA p : p[1] \notin ks)

\* fmt.Sprint of a scalar
Sprint(a) == CASE a.t = "s" -> a.v [] a.t = "n" -> a.v [] a.t = "b" -> (IF a.v THEN "true" ELSE "false") [] OTHER -> ""
StrOf(a) == Str(Sprint(a))
\* a scalar or a list of scalars as a list of strings
StrList(a) == IF a.t = "q" THEN [i \in 1..Len(a.e) |-> Sprint(a.e[i])] ELSE IF a.t = "z" THEN <<>> ELSE <<Sprint(a)>>
RECURSIVE JoinNL(_)
JoinNL(l) == IF Len(l) = 0 THEN "" ELSE IF Len(l) = 1 THEN l[1] ELSE l[1] \o "\n" \o JoinNL(Tail(l))
\* every value of a mapping as a string
StrValues(m) == IF m.t # "m" THEN Str("<error: not a mapping>") ELSE Map([i \in 1..Len(m.kv) |-> <<m.kv[i][1], StrOf(m.kv[i][2])>>])

CanonSrc(s) == IF s \in DOMAIN SourceTable THEN SourceTable[s] ELSE s

FirstOf(m, names) ==         \* the first of the names that is a key of m, or "<none>"
    LET hit == {i \in 1..Len(names) : MHas(m, names[i])}
    IN IF hit = {} THEN "<none>" ELSE names[CHOOSE i \in hit : \A j \in hit : i <= j]

(* ---------------- plugins ---------------- *)
IsEmptyContainer(a) == (a.t = "m" /\ Len(a.kv) = 0) \/ (a.t = "q" /\ Len(a.e) = 0)
NormCfg(a) == IF IsEmptyContainer(a) THEN Null ELSE a
PluginEntry(src, cfg) == Map(<< <<CanonSrc(src), NormCfg(cfg)>> >>)
\* one written item of a plugin list: a mapping (each entry a plugin, in order) or a bare source string
PluginItems(a) == IF a.t = "m" THEN [i \in 1..Len(a.kv) |-> PluginEntry(a.kv[i][1], a.kv[i][2])] ELSE <<PluginEntry(a.v, Null)>>
NormPlugins(a) == IF a.t = "m" THEN SeqV(PluginItems(a))
                  ELSE IF a.t # "q" THEN Str("<error: plugins must be a list or a mapping>")     \* (the library refuses; never generated for the repaired code)
                  ELSE SeqV(Flatten([i \in 1..Len(a.e) |-> PluginItems(a.e[i])]))

(* ---------------- matrix ---------------- *)
StrSeq(a) == IF a.t # "q" THEN a ELSE SeqV([i \in 1..Len(a.e) |-> StrOf(a.e[i])])      \* (a null list stays null: probe F16)
NormWith(a) == IF a.t = "m"
               THEN (IF Len(a.kv) = 1 /\ a.kv[1][1] = "" THEN StrOf(a.kv[1][2]) ELSE StrValues(a))
               ELSE StrOf(a)
\* (an adjustment written without `with` still shows an empty one: the field has no omitempty)
NormAdj(a) == Map([i \in 1..Len(a.kv) |-> IF a.kv[i][1] = "with" THEN <<"with", NormWith(a.kv[i][2])>> ELSE a.kv[i]]
                  \o (IF MHas(a, "with") THEN <<>> ELSE << <<"with", Map(<<>>)>> >>))
NormSetup(a) == IF a.t = "q" THEN StrSeq(a)
                ELSE IF Len(a.kv) = 1 /\ a.kv[1][1] = "" /\ Len(a.kv[1][2].e) > 0 THEN StrSeq(a.kv[1][2])
                ELSE Map([i \in 1..Len(a.kv) |-> <<a.kv[i][1], StrSeq(a.kv[i][2])>>])
NormMatrix(a) ==
    IF a.t = "q" THEN StrSeq(a)                                                        \* matrix: [a, b]
    ELSE LET setup == IF MHas(a, "setup") THEN NormSetup(MGet(a, "setup")) ELSE Map(<<>>)   \* no setup written: an empty one is shown (never null)
             adjs == IF MHas(a, "adjustments") /\ MGet(a, "adjustments").t = "q" THEN MGet(a, "adjustments").e ELSE <<>>
             rest == MDrop(a, {"setup", "adjustments"})
         IN IF setup.t = "q" /\ Len(adjs) = 0 /\ Len(rest) = 0 THEN setup               \* simple: reduced to the list
            ELSE Map(<< <<"setup", setup>> >>
                     \o (IF Len(adjs) = 0 THEN <<>> ELSE << <<"adjustments", SeqV([i \in 1..Len(adjs) |-> NormAdj(adjs[i])])>> >>)
                     \o rest)

(* ---------------- cache ---------------- *)
NormCache(a) ==
    CASE a.t = "s" -> Map(<< <<"paths", SeqV(<<a>>)>> >>)
      [] a.t = "q" -> Map(<< <<"paths", StrSeq(a)>> >>)
      [] a.t = "m" -> Map([i \in 1..Len(a.kv) |-> IF a.kv[i][1] = "paths" THEN <<"paths", StrSeq(a.kv[i][2])>> ELSE a.kv[i]])
      [] OTHER -> a                                                                    \* false stays false

(* ---------------- steps ---------------- *)
KeyOf(s) == IF MHas(s, "key") THEN "key" ELSE FirstOf(s, <<"id", "identifier">>)
LabelOf(s) == IF MHas(s, "label") THEN "label" ELSE FirstOf(s, <<"name">>)

NormCommand(s) ==
    LET cmdKey == FirstOf(s, <<"commands", "command">>)
        command == IF cmdKey = "<none>" THEN "" ELSE JoinNL(StrList(MGet(s, cmdKey)))
        keyK == KeyOf(s)
        labK == LabelOf(s)
        \* named deviation: when both are written, `commands` wins and `command` is dropped
        consumed == {"commands", "command", keyK, labK, "plugins", "env", "matrix", "cache"}
        opt(k, v) == IF v = Null THEN <<>> ELSE << <<k, v>> >>
    IN Map(<< <<"command", Str(command)>> >>
           \o (IF keyK = "<none>" \/ Sprint(MGet(s, keyK)) = "" THEN <<>> ELSE << <<"key", StrOf(MGet(s, keyK))>> >>)     \* empty: omitted
           \o (IF labK = "<none>" \/ Sprint(MGet(s, labK)) = "" THEN <<>> ELSE << <<"label", StrOf(MGet(s, labK))>> >>)
           \o (IF MHas(s, "plugins") THEN << <<"plugins", NormPlugins(MGet(s, "plugins"))>> >> ELSE <<>>)
           \o (IF MHas(s, "env") THEN << <<"env", StrValues(MGet(s, "env"))>> >> ELSE <<>>)
           \o (IF MHas(s, "matrix") THEN << <<"matrix", NormMatrix(MGet(s, "matrix"))>> >> ELSE <<>>)
           \o (IF MHas(s, "cache") THEN << <<"cache", NormCache(MGet(s, "cache"))>> >> ELSE <<>>)
           \o MDrop(s, consumed))

RECURSIVE NormStep(_), NormSteps(_)
NormGroup(s) ==
    LET keyK == KeyOf(s)
        grpK == IF MHas(s, "group") THEN "group" ELSE FirstOf(s, <<"label", "name">>)      \* `label`/`name` name a group only when `group` is absent
        grpV == IF grpK = "<none>" \/ MGet(s, grpK) = Null THEN Null ELSE StrOf(MGet(s, grpK))
    IN Map(<< <<"group", grpV>>,
              <<"steps", IF MHas(s, "steps") THEN NormSteps(MGet(s, "steps")) ELSE EmptySeq>> >>
           \o (IF keyK = "<none>" \/ Sprint(MGet(s, keyK)) = "" THEN <<>> ELSE << <<"key", StrOf(MGet(s, keyK))>> >>)
           \o MDrop(s, {grpK, "steps", keyK}))
NormStep(s) ==
    IF s.t # "m" THEN s                                                \* scalar steps stay as written
    ELSE LET hasType == MHas(s, "type")
             kind == RuleKind(Keys(s), hasType, IF hasType THEN MGet(s, "type").v ELSE "").kind
         IN CASE kind = "command" -> NormCommand(s)
              [] kind = "group" -> NormGroup(s)
              [] OTHER -> s                                            \* wait / input / trigger / unknown: verbatim
NormSteps(a) == IF a = Null THEN EmptySeq ELSE SeqV([i \in 1..Len(a.e) |-> NormStep(a.e[i])])

Normal(d) ==
    LET m == IF d.t = "q" THEN Map(<< <<"steps", d>> >>) ELSE d
    IN Map((IF MHas(m, "steps") THEN <<>> ELSE << <<"steps", EmptySeq>> >>)
           \o Flatten([i \in 1..Len(m.kv) |->
                  LET k == m.kv[i][1]
                      v == m.kv[i][2]
                  IN IF k = "steps" THEN << <<"steps", NormSteps(v)>> >>
                     ELSE IF k = "env" THEN (IF v = Null THEN <<>> ELSE << <<"env", StrValues(v)>> >>)
                     ELSE << <<k, v>> >>]))

(* ---------------- comparison with order where order is kept ---------------- *)
\* Which mapping levels of the marshalled pipeline keep document order?  Everything that is stored
\* in an ordered map does: the pipeline env block, an unknown step (all levels), and every mapping
\* BELOW the top level of unknown fields / wait-input-trigger contents / top-level extras.  Levels
\* backed by Go maps or typed structs (pipeline, typed steps, step env, matrix, cache, signature) are
\* compared as sets of pairs; plugin configs are unordered at every depth (by design, for signing).
StepRole(a) ==
    IF a.t # "m" THEN "ord"
    ELSE LET hasType == MHas(a, "type") /\ MGet(a, "type").t = "s"
             kind == RuleKind(Keys(a), hasType, IF hasType THEN MGet(a, "type").v ELSE "").kind
         IN CASE kind = "unknown" -> "ord" [] kind = "command" -> "cmd" [] kind = "group" -> "grp" [] OTHER -> "contents"
ChildRole(role, k) ==
    CASE role = "pipeline" -> (IF k = "steps" THEN "steps" ELSE "ord")
      [] role = "cmd" -> (CASE k = "plugins" -> "pluginlist" [] k \in {"env", "signature"} -> "unordall" [] k = "matrix" -> "matrix"
                            [] k = "cache" -> "cache" [] OTHER -> "ord")
      [] role = "grp" -> (IF k = "steps" THEN "steps" ELSE "ord")
      [] role = "plugin" -> "unordall"
      [] role = "unordall" -> "unordall"
      [] role = "matrix" -> (CASE k = "setup" -> "unordall" [] k = "adjustments" -> "adjlist" [] OTHER -> "ord")
      [] role = "adj" -> (IF k = "with" THEN "unordall" ELSE "ord")
      [] OTHER -> "ord"                       \* contents, cache, ord
ElemRole(role) == CASE role = "steps" -> "stepitem" [] role = "pluginlist" -> "plugin" [] role = "adjlist" -> "adj" [] OTHER -> role
RECURSIVE EqHybrid(_, _, _)
EqHybrid(a, b, role0) ==
    LET role == IF role0 = "stepitem" THEN StepRole(a) ELSE role0 IN
    /\ a.t = b.t
    /\ CASE a.t = "m" ->
              /\ Len(a.kv) = Len(b.kv)
              /\ IF role = "ord"
                 THEN \A i \in 1..Len(a.kv) : a.kv[i][1] = b.kv[i][1] /\ EqHybrid(a.kv[i][2], b.kv[i][2], "ord")
                 ELSE /\ \A i \in 1..Len(a.kv) : \E j \in 1..Len(b.kv) :
                           a.kv[i][1] = b.kv[j][1] /\ EqHybrid(a.kv[i][2], b.kv[j][2], ChildRole(role, a.kv[i][1]))
                      /\ \A j \in 1..Len(b.kv) : \E i \in 1..Len(a.kv) : a.kv[i][1] = b.kv[j][1]
         [] a.t = "q" -> Len(a.e) = Len(b.e) /\ \A i \in 1..Len(a.e) : EqHybrid(a.e[i], b.e[i], ElemRole(role))
         [] OTHER -> a = b
\* the same relation ignoring order everywhere (C03 alone: content, not order)
EqContent(a, b) == EqUnord(a, b)
=============================================================================
