SPECIFICATION Spec
CONSTANTS
  EnvNames = {"A", "B"}
INVARIANT Report
CHECK_DEADLOCK FALSE
