SPECIFICATION Spec
CONSTANTS
  MaxNodes = 4
  MaxDepth = 3
  DoExport = FALSE
  EnvNames = {"A", "B"}
INVARIANTS InvSuccessMeansAllSigned InvRefusedOnlyForUnknown InvUnknownNeverOk Export
PROPERTY Termination
CHECK_DEADLOCK FALSE
