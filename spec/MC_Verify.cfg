SPECIFICATION Spec
CONSTANTS
  DoExport = TRUE
  EnvNames = {"A", "B", "C", "Z", "A2", "UNRELATED", "command", "plugins", "repository_url"}
INVARIANTS InvImplEqualsRule InvCatalogue Export
CHECK_DEADLOCK FALSE
