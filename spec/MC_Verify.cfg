SPECIFICATION Spec
CONSTANTS
  DoExport = TRUE
  EnvNames = {"A", "B", "C", "Z", "A2", "UNRELATED"}
INVARIANTS InvImplEqualsRule InvCatalogue Export
CHECK_DEADLOCK FALSE
