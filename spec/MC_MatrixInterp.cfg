SPECIFICATION Spec
CONSTANTS
  MaxToks = 2
  DoExport = TRUE
INVARIANTS InvScanEqualsRule InvNoTokens Export
CHECK_DEADLOCK FALSE
