------------------------------ MODULE Unmarshal ------------------------------
(***************************************************************************)
(* C16: the reflective unmarshaler (ordered.Unmarshal / decodeInto).       *)
(*                                                                         *)
(* A struct descriptor is a sequence of fields                             *)
(*   [name, key, aliases, role, type]                                      *)
(* role: "plain" | "skip" (yaml:"-") | "inline";  key is the tag's name or *)
(* the lower-cased field name; type is one of                              *)
(*   "string" "int" "bool" "float" "any" "slice_string" "slice_any"        *)
(*   "map_ss" "map_sa" "struct:<S>" "ptr:<S>" "inline_map"                 *)
(* where <S> names another descriptor in Structs.  A document is a         *)
(* sequence of <<key, AV>> pairs.  Destinations are AV trees:              *)
(* struct = mapping field-name -> value; nil slice/map/pointer = null.     *)
(*                                                                         *)
(*   DecodeImpl - implementation-shaped: the loop of decodeInto over the   *)
(*                fields in declaration order with its outlineKeys set,    *)
(*                then the copy of the remaining keys to the inline field; *)
(*   Expect     - rule-shaped ("Partition"): each key is consumed by       *)
(*                exactly one place.                                       *)
(* Switches reproduce the pinned commit: FixEmptyAlias (fields without an  *)
(* aliases tag do not try the alias ""), FixEmptySliceAny ([] into []any   *)
(* gives an empty, not a nil, slice).                                      *)
(***************************************************************************)
EXTENDS AV, TLC

CONSTANTS FixEmptyAlias, FixEmptySliceAny

Num(s) == [t |-> "n", v |-> s]
Bool(b) == [t |-> "b", v |-> b]
EmptySeq == [t |-> "q", e |-> <<>>]

(* ---------------- the struct family ---------------- *)
F(name, key, aliases, role, type) == [name |-> name, key |-> key, aliases |-> aliases, role |-> role, type |-> type]
Structs ==
    [ sub    |-> << F("X", "x", <<>>, "plain", "string"), F("Y", "y", <<>>, "plain", "int") >>,
      inl    |-> << F("P", "p", <<>>, "plain", "string"), F("Q", "q", <<>>, "plain", "int") >>,
      \* an inline VALUE struct that has a field keyed like an outer field's primary key and its own catch-all: keys the outer
      \* struct consumed (by tag or through an alias) must never be offered to it again
      inl2   |-> << F("IName", "name", <<>>, "plain", "string"), F("ICount", "n", <<>>, "plain", "int"), F("IRest", "", <<>>, "inline", "inline_map") >>,
      \* the structs of the pipeline object model (fields whose own UnmarshalOrdered reshapes the value are "any" here)
      cmdouter |-> << F("Commands", "commands", <<"command">>, "plain", "any"), F("Rem", "", <<>>, "inline", "struct:cmdinner") >>,
      cmdinner |-> << F("Key", "key", <<"id", "identifier">>, "plain", "any"), F("Label", "label", <<"name">>, "plain", "any"),
                      F("Command", "command", <<>>, "plain", "any"), F("Plugins", "plugins", <<>>, "plain", "any"),
                      F("Env", "env", <<>>, "plain", "any"), F("Signature", "signature", <<>>, "plain", "any"),
                      F("Matrix", "matrix", <<>>, "plain", "any"), F("Cache", "cache", <<>>, "plain", "any"),
                      F("RemainingFields", "", <<>>, "inline", "inline_map") >>,
      group  |-> << F("Key", "key", <<"id", "identifier">>, "plain", "any"), F("Group", "group", <<"label", "name">>, "plain", "any"),
                    F("Steps", "steps", <<>>, "plain", "any"), F("RemainingFields", "", <<>>, "inline", "inline_map") >> ]
FieldPool ==
    [ f_name  |-> F("Name", "name", <<"label", "title">>, "plain", "string"),
      f_count |-> F("Count", "count", <<"n">>, "plain", "int"),
      f_flag  |-> F("Flag", "flag", <<>>, "plain", "bool"),
      f_tags  |-> F("Tags", "tags", <<"labels">>, "plain", "slice_string"),
      f_items |-> F("Items", "items", <<>>, "plain", "slice_any"),
      f_env   |-> F("Env", "env", <<>>, "plain", "map_ss"),
      f_extra |-> F("Extra", "extra", <<>>, "plain", "map_sa"),
      f_anyv  |-> F("Anyv", "anyv", <<"av">>, "plain", "any"),
      f_sub   |-> F("Sub", "sub", <<>>, "plain", "struct:sub"),
      f_psub  |-> F("PSub", "psub", <<"ps">>, "plain", "ptr:sub"),
      f_subs  |-> F("Subs", "subs", <<>>, "plain", "slice_struct:sub"),
      f_hid   |-> F("Hidden", "hidden", <<>>, "skip", "string"),
      f_ratio |-> F("Ratio", "ratio", <<>>, "plain", "float"),
      f_nenv  |-> F("NEnv", "nenv", <<>>, "plain", "map_nss"),                   \* a map whose key type is a NAMED string type
      f_camel |-> F("Retries", "maxRetries", <<"MaxRetries">>, "plain", "int"),   \* a TAG key is taken as written: no case folding, unlike the default (field-name) key
      i_map   |-> F("Rest", "", <<>>, "inline", "inline_map"),
      i_str   |-> F("RestS", "", <<>>, "inline", "struct:inl"),
      i_str2  |-> F("RestT", "", <<>>, "inline", "struct:inl2") ]

StructTypes == {"struct:sub", "struct:inl", "struct:inl2", "struct:cmdinner"}
IsStructType(t) == t \in StructTypes \cup {"ptr:sub"}
StructOf(t) == CASE t = "struct:inl" -> Structs.inl [] t = "struct:inl2" -> Structs.inl2 [] t = "struct:cmdinner" -> Structs.cmdinner [] OTHER -> Structs.sub

(* ---------------- documents ---------------- *)
DocKeys(doc) == {doc[i][1] : i \in 1..Len(doc)}
DocGet(doc, k) == doc[CHOOSE i \in 1..Len(doc) : doc[i][1] = k][2]
AsDoc(av) == av.kv                      \* a mapping AV as a document

Zero(type) ==
    CASE type = "string" -> Str("") [] type = "int" -> Num("0") [] type = "float" -> Num("0") [] type = "bool" -> Bool(FALSE)
      [] OTHER -> Null                  \* any, slices, maps, pointers: nil
RECURSIVE ZeroStruct(_)
ZeroStruct(desc) == [t |-> "m", kv |-> [i \in 1..Len(desc) |->
                        <<desc[i].name, IF desc[i].type \in StructTypes THEN ZeroStruct(StructOf(desc[i].type)) ELSE Zero(desc[i].type)>>]]
ZeroOf(type) == IF type \in StructTypes THEN ZeroStruct(StructOf(type)) ELSE Zero(type)
FieldOf(dst, name) == Get(dst, name)

(* =============== rule-shaped =============== *)
FirstPresent(aliases, keys) ==
    LET hit == {i \in 1..Len(aliases) : aliases[i] \in keys}
    IN IF hit = {} THEN "<none>" ELSE aliases[CHOOSE i \in hit : \A j \in hit : i <= j]
\* the one key a plain field consumes
Chosen(f, keys) == IF f.key \in keys THEN f.key ELSE FirstPresent(f.aliases, keys)
Consumed(desc, keys) == {Chosen(desc[i], keys) : i \in {j \in 1..Len(desc) : desc[j].role = "plain"}} \ {"<none>"}

RECURSIVE Expect(_, _, _), ExpectValue(_, _, _)
\* value v (not null) arriving at a destination of the given type that currently holds cur
ExpectValue(type, v, cur) ==
    CASE type \in StructTypes -> Expect(StructOf(type), AsDoc(v), cur)
      [] type = "ptr:sub" -> Expect(Structs.sub, AsDoc(v), IF cur = Null THEN ZeroStruct(Structs.sub) ELSE cur)
      [] type = "slice_struct:sub" -> [t |-> "q", e |-> [i \in 1..Len(v.e) |-> Expect(Structs.sub, AsDoc(v.e[i]), ZeroStruct(Structs.sub))]]   \* every element starts from zero
      [] type \in {"map_ss", "map_nss"} -> [t |-> "m", kv |-> [i \in 1..Len(v.kv) |-> <<v.kv[i][1], IF v.kv[i][2] = Null THEN Str("") ELSE v.kv[i][2]>>]]   \* a null entry is the zero string
      [] OTHER -> v
\* desc: descriptor, doc: document, dst: the destination struct's current value
Expect(desc, doc, dst) ==
    LET keys == DocKeys(doc)
        rest == SelectSeq(doc, LAMBDA p : p[1] \notin Consumed(desc, keys))       \* everything nobody consumed
    IN [t |-> "m", kv |-> [i \in 1..Len(desc) |->
          LET f == desc[i]
              cur == FieldOf(dst, f.name)
          IN <<f.name,
               CASE f.role = "skip" -> cur
                 [] f.role = "inline" ->
                      (IF Len(rest) = 0 THEN cur
                       ELSE IF f.type = "inline_map" THEN [t |-> "m", kv |-> (IF cur = Null THEN <<>> ELSE cur.kv) \o rest]
                       ELSE Expect(StructOf(f.type), rest, cur))
                 [] OTHER ->
                      LET c == Chosen(f, keys) IN
                      IF c = "<none>" THEN cur                                       \* absent: untouched
                      ELSE IF DocGet(doc, c) = Null THEN ZeroOf(f.type)                \* null: zeroed
                      ELSE ExpectValue(f.type, DocGet(doc, c), cur)>>]]

(* =============== implementation-shaped =============== *)
AliasList(f) == IF Len(f.aliases) = 0 THEN (IF FixEmptyAlias THEN <<>> ELSE <<"">>) ELSE f.aliases   \* strings.Split("", ",") = [""]
RECURSIVE DecodeImpl(_, _, _), FieldLoop(_, _, _, _, _, _), ImplValue(_, _, _)
ImplValue(type, v, cur) ==
    CASE type \in StructTypes -> DecodeImpl(StructOf(type), AsDoc(v), cur)
      [] type = "ptr:sub" -> DecodeImpl(Structs.sub, AsDoc(v), IF cur = Null THEN ZeroStruct(Structs.sub) ELSE cur)
      [] type = "slice_struct:sub" -> [t |-> "q", e |-> [i \in 1..Len(v.e) |-> DecodeImpl(Structs.sub, AsDoc(v.e[i]), ZeroStruct(Structs.sub))]]   \* x := reflect.New(etype) per element
      [] type = "slice_any" -> (IF v = EmptySeq /\ cur = Null /\ ~FixEmptySliceAny THEN Null ELSE v)    \* append(nil, empty...) is nil
      [] type \in {"map_ss", "map_nss"} -> [t |-> "m", kv |-> [i \in 1..Len(v.kv) |-> <<v.kv[i][1], IF v.kv[i][2] = Null THEN ZeroOf("string") ELSE v.kv[i][2]>>]]   \* Unmarshal(nil, *string) zeroes
      [] OTHER -> v
\* loop over the fields: acc = pairs decided so far, outline = keys matched to fields
FieldLoop(desc, doc, dst, i, acc, outline) ==
    IF i > Len(desc) THEN [acc |-> acc, outline |-> outline]
    ELSE LET f == desc[i]
             cur == FieldOf(dst, f.name)
             keys == DocKeys(doc)
         IN IF f.role # "plain" THEN FieldLoop(desc, doc, dst, i + 1, Append(acc, <<f.name, cur>>), outline)
            ELSE LET al == AliasList(f)
                     hit == {j \in 1..Len(al) : al[j] \in keys}
                     key == IF f.key \in keys THEN f.key
                            ELSE IF hit = {} THEN "<none>" ELSE al[CHOOSE j \in hit : \A x \in hit : j <= x]
                 IN IF key = "<none>" THEN FieldLoop(desc, doc, dst, i + 1, Append(acc, <<f.name, cur>>), outline)
                    ELSE LET v == DocGet(doc, key)
                             nv == IF v = Null THEN ZeroOf(f.type) ELSE ImplValue(f.type, v, cur)
                         IN FieldLoop(desc, doc, dst, i + 1, Append(acc, <<f.name, nv>>), outline \cup {key})
DecodeImpl(desc, doc, dst) ==
    LET r == FieldLoop(desc, doc, dst, 1, <<>>, {})
        temp == SelectSeq(doc, LAMBDA p : p[1] \notin r.outline)
        inl == {i \in 1..Len(desc) : desc[i].role = "inline"}
    IN [t |-> "m", kv |-> [i \in 1..Len(desc) |->
          IF i \in inl /\ Len(temp) > 0
          THEN <<desc[i].name,
                 LET cur == FieldOf(dst, desc[i].name) IN
                 IF desc[i].type = "inline_map" THEN [t |-> "m", kv |-> (IF cur = Null THEN <<>> ELSE cur.kv) \o temp]
                 ELSE DecodeImpl(StructOf(desc[i].type), temp, cur)>>
          ELSE r.acc[i]]]
=============================================================================
