----------------------------- MODULE MC_EnvBlock -----------------------------
(***************************************************************************)
(* C10 bounded model.  The implementation-shaped machine processes the     *)
(* pipeline env block as Pipeline.interpolateEnvBlock does - one action    *)
(* per step of the callback: ExpandName, ExpandValue (either order),       *)
(* Rewrite (ordered-map Replace in place), CheckExists, WriteBack - and    *)
(* TLC checks that every run ends in the state the rule-shaped fold        *)
(* FoldBlock prescribes, that definition order is kept, that under         *)
(* runtime precedence the caller's own variables never change, and         *)
(* termination.                                                            *)
(***************************************************************************)
EXTENDS Interp, Json

CONSTANTS MaxEntries, DoExport, PoolSize,
          RenameInPlace     \* TRUE: the pinned commit (p.Env.Replace inside Range: a later entry may be tombstoned unvisited, F22)

NamePoolAll == << <<Lit("A")>>, <<Lit("B")>>, <<Lit("a")>>, <<Lit("X")>>, <<Lit("N_"), Ref("X", "plain")>>, <<Ref("X", "brace"), Lit("S")>>,
                 <<Ref("X", "brace")>>,        \* a name that IS another variable's value (may already exist in the caller env)
                 <<Esc("X", "dd")>>, <<Ref("X", "plain")>> >>   \* twins: "$$X" expands to the WRITTEN name of "$X", which expands to something else
ValPoolAll == << <<Lit("1")>>, <<Ref("A", "plain")>>, <<Lit("P-"), Ref("B", "brace"), Lit("-S")>>, <<Esc("A", "dd")>>,
                 <<Esc("X", "bs"), Lit("+"), Ref("a", "plain")>>, <<Dflt("X", "D", "empty")>>, <<Dflt("B", "D", "unset")>>,
                 <<Ref("X", "brace")>>, <<Req("B")>>, <<Dflt("A", "D", "empty"), Esc("B", "dd")>> >>
NamePool == {NamePoolAll[i] : i \in 1..Len(NamePoolAll)}
ValPool == {ValPoolAll[i] : i \in 1..(IF PoolSize < Len(ValPoolAll) THEN PoolSize ELSE Len(ValPoolAll))}
Env0s == { <<>>, ("A" :> "RA"), ("X" :> "RX"), ("A" :> "RA") @@ ("X" :> "RX"), ("A" :> "") @@ ("X" :> "RX"),
           ("A" :> "RA") @@ ("X" :> "A"), ("B" :> "RB") @@ ("X" :> "B") }     \* X names a variable the caller already has

VARIABLES mode, prefer, block0, env0, lst, cenv, i, pc, nd, vd, intk, intv, ex, err, acc
vars == <<mode, prefer, block0, env0, lst, cenv, i, pc, nd, vd, intk, intv, ex, err, acc>>

n == Len(block0)
Entries == {[k |-> k, v |-> v] : k \in NamePool, v \in ValPool}

Init ==
    /\ mode \in {"exact", "upper"} /\ prefer \in BOOLEAN /\ env0 \in Env0s
    /\ \E m \in 0..MaxEntries : block0 \in [1..m -> Entries]
    /\ NoCollision(mode, prefer, block0, env0) \/ FoldBlock(mode, prefer, block0, env0).err
    /\ \A x, y \in 1..Len(block0) : x # y => Spell(block0[x].k) # Spell(block0[y].k)
    /\ lst = [j \in 1..Len(block0) |-> P(Spell(block0[j].k), Spell(block0[j].v))]
    /\ cenv = env0 /\ i = 1 /\ pc = "expand" /\ nd = FALSE /\ vd = FALSE
    /\ intk = "" /\ intv = "" /\ ex = FALSE /\ err = FALSE /\ acc = <<>>

Running == i <= n /\ ~err
\* (pinned commit) the entry the cursor stands on may have been deleted from the block by an earlier Replace: Range skips it
Gone == RenameInPlace /\ Running /\ pc = "expand" /\ ~nd /\ ~vd /\ ~LHas(lst, Spell(block0[i].k))
Skip == /\ Gone /\ i' = i + 1
        /\ UNCHANGED <<mode, prefer, block0, env0, lst, cenv, pc, nd, vd, intk, intv, ex, err, acc>>

ExpandName ==
    /\ Running /\ pc = "expand" /\ ~nd /\ ~Gone
    /\ IF Fails(mode, cenv, block0[i].k) THEN err' = TRUE /\ UNCHANGED <<intk, nd>>
       ELSE intk' = ExpandStr(mode, cenv, block0[i].k) /\ nd' = TRUE /\ UNCHANGED err
    /\ UNCHANGED <<mode, prefer, block0, env0, lst, cenv, i, pc, vd, intv, ex, acc>>
ExpandValue ==
    /\ Running /\ pc = "expand" /\ ~vd /\ ~Gone
    /\ IF Fails(mode, cenv, block0[i].v) THEN err' = TRUE /\ UNCHANGED <<intv, vd>>
       ELSE intv' = ExpandStr(mode, cenv, block0[i].v) /\ vd' = TRUE /\ UNCHANGED err
    /\ UNCHANGED <<mode, prefer, block0, env0, lst, cenv, i, pc, nd, intk, ex, acc>>
Rewrite ==                      \* pinned commit: p.Env.Replace(k, intk, intv) on the block being ranged; repaired: the pair is put aside
    /\ Running /\ pc = "expand" /\ nd /\ vd
    /\ IF RenameInPlace THEN lst' = LReplace(lst, Spell(block0[i].k), intk, intv) /\ UNCHANGED acc
       ELSE acc' = Append(acc, P(intk, intv)) /\ UNCHANGED lst
    /\ pc' = "check"
    /\ UNCHANGED <<mode, prefer, block0, env0, cenv, i, nd, vd, intk, intv, ex, err>>
CheckExists ==
    /\ Running /\ pc = "check"
    /\ ex' = Has(mode, cenv, intk)
    /\ pc' = "write"
    /\ UNCHANGED <<mode, prefer, block0, env0, lst, cenv, i, nd, vd, intk, intv, err, acc>>
WriteBack ==
    /\ Running /\ pc = "write"
    /\ cenv' = IF prefer /\ ex THEN cenv ELSE Put(mode, cenv, intk, intv)
    /\ i' = i + 1 /\ pc' = "expand" /\ nd' = FALSE /\ vd' = FALSE
    /\ UNCHANGED <<mode, prefer, block0, env0, lst, intk, intv, ex, err, acc>>
Next == ExpandName \/ ExpandValue \/ Rewrite \/ CheckExists \/ WriteBack \/ Skip
Spec == Init /\ [][Next]_vars /\ WF_vars(Next)

Done == i > n \/ err
Want == FoldBlock(mode, prefer, block0, env0)

Final == IF RenameInPlace THEN lst ELSE LFromItems(acc)          \* repaired: the block is rebuilt from the pairs put aside (MapFromItems)
InvAtDone == Done => (IF err THEN Want.err ELSE ~Want.err /\ (NoCollision(mode, prefer, block0, env0) => Final = Want.block) /\ cenv = Want.env)
InvDefinitionOrder ==            \* entries before the cursor are rewritten, the others untouched, all in place
    NoCollision(mode, prefer, block0, env0) =>     \* (colliding names are admitted only when the fold fails; which entry survives is not stated)
    /\ (RenameInPlace => Len(lst) = n)
    /\ (RenameInPlace => \A j \in 1..n : j >= i /\ ~(j = i /\ pc # "expand") => lst[j] = P(Spell(block0[j].k), Spell(block0[j].v)))
    /\ (~RenameInPlace => lst = [j \in 1..n |-> P(Spell(block0[j].k), Spell(block0[j].v))])     \* the block itself is untouched until the end
    /\ (~RenameInPlace /\ ~err => Len(acc) = (IF pc = "expand" THEN i - 1 ELSE i))
InvRuntimePrecedence == prefer => \A x \in DOMAIN env0 : x \in DOMAIN cenv /\ cenv[x] = env0[x]
Termination == <>Done

Tok(s) == [j \in 1..Len(s) |-> s[j]]
ProbeNames == <<"A", "B", "a", "X">>     \* valid identifiers only; other names are looked up directly in the caller env
Export ==
    (DoExport /\ i = 1 /\ pc = "expand" /\ ~nd /\ ~vd /\ ~err) =>
      PrintT("CASE " \o ToJson([mode |-> mode, prefer |-> prefer,
                                block |-> [j \in 1..n |-> [k |-> Spell(block0[j].k), v |-> Spell(block0[j].v), ktok |-> block0[j].k, vtok |-> block0[j].v]],
                                env0 |-> env0, probe |-> ProbeNames]))
=============================================================================
