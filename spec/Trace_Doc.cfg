SPECIFICATION Spec
CONSTANTS
  MODE = "C03"
  SourceTable <- ST
INVARIANT Report
CHECK_DEADLOCK FALSE
