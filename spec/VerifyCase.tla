----------------------------- MODULE VerifyCase -----------------------------
(* A C01 case: a signed step (orig, penv, key) and a presented state given by   *)
(* the mutated content pc, verification env venv and the operations applied to  *)
(* the signature record and the key set.  Shared by the bounded model and the   *)
(* trace specification, so both judge with the same definitions.                *)
EXTENDS Signing, SequencesExt

Fn(x) == [k \in DOMAIN x |-> x[k]]
NormC(x) == [command |-> x.command, env |-> [nil |-> x.env.nil, m |-> Fn(x.env.m)],
             plugins |-> [nil |-> x.plugins.nil, l |-> [i \in 1..Len(x.plugins.l) |-> [src |-> x.plugins.l[i].src, cfg |-> x.plugins.l[i].cfg]]],
             matrix |-> x.matrix, repo |-> x.repo]
OtherSame(k) == [pair |-> "K2", alg |-> k.alg]
OtherAlg(k) == [pair |-> "K3", alg |-> IF k.alg = "EdDSA" THEN "ES512" ELSE "EdDSA"]
NonSemantic == {"none", "env_nil_vs_empty", "plugins_nil_vs_empty", "matrix_nil_vs_empty", "matrix_empty_alloc", "matrix_empty_adj", "plug_source_spelling", "plug_cfg_empty_vs_null",
                "venv_extra_unsigned", "venv_extra_fieldname", "fields_permuted", "fields_duplicate", "keyset_signer_plus_others"}
ApplyFieldOp(op, fs) ==       \* fs: the signed field list (a sequence)
    CASE op = "same" -> fs [] op = "reverse" -> Reverse(fs) [] op = "dup" -> Append(fs, fs[1]) [] op = "empty" -> <<>>
      [] op = "drop:repository_url" -> SelectSeq(fs, LAMBDA f : f # "repository_url")
      [] op = "drop:command" -> SelectSeq(fs, LAMBDA f : f # "command")
      [] op = "drop:matrix" -> SelectSeq(fs, LAMBDA f : f # "matrix")
      [] op = "dropdup:repository_url" -> Append(SelectSeq(fs, LAMBDA f : f # "repository_url"), "command")
      [] op = "add:env::UNRELATED" -> Append(fs, "env::UNRELATED")
      [] op = "add:bogus_field" -> Append(fs, "bogus_field")
      [] OTHER -> LET victim == CHOOSE f \in SeqSet(fs) \ Mandatory : op = "drop:" \o f IN SelectSeq(fs, LAMBDA f : f # victim)

Key(cc) == [pair |-> cc.key.pair, alg |-> cc.key.alg]
SignedOf(cc) == SignRecord(NormC(cc.orig), Fn(cc.penv), Key(cc))
PresRecOf(cc) ==
    LET Signed == SignedOf(cc) IN
    [alg |-> IF cc.algop = "other" THEN "HS512" ELSE Signed.alg,
     fields |-> ApplyFieldOp(cc.fieldop, SetToSeq(Signed.fields)),
     value |-> CASE cc.valueop = "splice" -> [Signed.value EXCEPT !.payload = Payload(Signed.alg, Values([NormC(cc.orig) EXCEPT !.command = "another step"], Fn(cc.penv)))]
                 [] cc.valueop = "attach" -> [Signed.value EXCEPT !.form = "attached"]      \* the same signature with the ORIGINAL payload spliced into the value
                 [] cc.valueop = "partial" ->                                                 \* a GENUINE signature of the signer's key over all fields but one mandatory field
                      LET dropped == IF cc.fieldop = "drop:command" THEN "command" ELSE IF cc.fieldop = "dropdup:repository_url" THEN "repository_url" ELSE "matrix"
                          v == Values(NormC(cc.orig), Fn(cc.penv))
                      IN [Signed.value EXCEPT !.payload = Payload(Signed.alg, Restrict(v, DOMAIN v \ {dropped}))]
                 [] cc.valueop = "bitflip" -> [Signed.value EXCEPT !.payload = Payload("garbage", <<>>)]
                 [] OTHER -> Signed.value]
KeySetOf(cc) == CASE cc.keyop = "signer" -> {Key(cc)} [] cc.keyop = "signer_plus" -> {Key(cc), OtherSame(Key(cc)), OtherAlg(Key(cc))}
                  [] cc.keyop = "other_same_alg" -> {OtherSame(Key(cc))} [] cc.keyop = "other_alg" -> {OtherAlg(Key(cc))}
                  [] cc.keyop = "without_signer" -> {OtherSame(Key(cc)), OtherAlg(Key(cc))}
                  [] cc.keyop = "empty" -> {}
ImplOf(cc) == VerifyImpl(PresRecOf(cc), KeySetOf(cc), NormC(cc.pc), Fn(cc.venv))
RuleOf(cc) == VerifyRule(NormC(cc.orig), Fn(cc.penv), Key(cc), PresRecOf(cc), KeySetOf(cc), NormC(cc.pc), Fn(cc.venv))
=============================================================================
