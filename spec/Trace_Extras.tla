----------------------------- MODULE Trace_Extras -----------------------------
(* Trace validation for the behaviour specified in module Extras (not one of   *)
(* the listed properties).                                                     *)
EXTENDS Extras, AV, Json, IOUtils
Trace == ndJsonDeserialize(IOEnv.VERIF_TRACE)
N == Len(Trace)
VARIABLES l, bad, mach
vars == <<l, bad, mach>>
RECURSIVE TreeOf(_)
TreeOf(e) == IF e.w THEN [w |-> TRUE, msg |-> e.msg, kids |-> [i \in 1..Len(e.kids) |-> TreeOf(e.kids[i])]] ELSE [w |-> FALSE, msg |-> e.msg]
RECURSIVE EnvFold(_, _, _)
EnvFold(ops, ins, i) == IF i = 0 THEN <<>> ELSE EnvSet(EnvFold(ops, ins, i - 1), ins, ops[i][3], ops[i][1], ops[i][2])
EventOK(e) ==
    CASE e.kind = "wrap" -> LET errs == [i \in 1..Len(e.errs) |-> TreeOf(e.errs[i])] IN
                               /\ e.result = WrapResult(errs)
                               /\ e.iswarning = (Len(errs) > 0)                     \* Wrap downgrades errors to a warning
                               /\ (Len(errs) > 0 => e.leaves = LeavesSeq(errs))      \* nothing is lost
      [] e.kind = "wrapf" -> e.result = WrapfResult(TreeOf(e.w)) /\ e.leaves = Leaves(TreeOf(e.w))
      [] e.kind = "isas" -> e.is = IsWarning(TreeOf(e.e)) /\ e.as = IsWarning(TreeOf(e.e)) /\ ~e.isnil /\ ~e.asnil
      [] e.kind = "env" -> \A i \in 1..Len(e.gets) :
                               LET g == EnvGet(EnvFold(e.ops, e.insensitive, Len(e.ops)), e.insensitive, e.gets[i][4], e.gets[i][1])
                               IN e.gets[i][2] = g.ok /\ e.gets[i][3] = g.v
      [] e.kind = "unmarshal" -> ~e.panic /\ e.outcome = Outcome(e.s, e.d)
      [] e.kind = "inline" -> /\ ~e.panic /\ e.ok
                              /\ {e.keys[i] : i \in 1..Len(e.keys)} = MarshalKeys(e.outline, e.inline, {e.skipped[i] : i \in 1..Len(e.skipped)})
                              /\ \A i \in 1..Len(e.pairs) : e.pairs[i][2] = MarshalValue(e.outline, e.inline, e.pairs[i][1])
      \* ToMapRecursive: same data with the order forgotten, no ordered map left anywhere, the source untouched
      [] e.kind = "tomaprec" -> ~e.panic /\ EqUnord(e.out, e.in) /\ e.noordered /\ EqOrd(e.inafter, e.in)
      \* AssertValues[string]: succeeds exactly when every value is a string; then the same pairs in the same order
      [] e.kind = "assertvalues" -> /\ ~e.panic
                                    /\ e.ok = (\A i \in 1..Len(e.in.kv) : e.in.kv[i][2].t = "s")
                                    /\ (e.ok => EqOrd(e.out, e.in))
      [] e.kind = "scalarstep" -> /\ ~e.panic /\ ~e.harderr
                                  /\ e.steptype = ScalarStepType(e.s) /\ e.warned = ScalarStepWarns(e.s) /\ e.scalar = e.s
      [] OTHER -> FALSE
Init == l = 1 /\ bad = {} /\ mach = {}
Next == /\ l <= N
        /\ l' = l + 1
        /\ mach' = mach
        /\ bad' = IF EventOK(Trace[l]) THEN bad ELSE bad \cup {l}
Spec == Init /\ [][Next]_vars
Report == (l = N + 1) => PrintT("VERIF_DONE " \o ToJson([n |-> N, bad |-> bad, mach |-> mach]))
=============================================================================
