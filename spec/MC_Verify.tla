------------------------------ MODULE MC_Verify ------------------------------
(***************************************************************************)
(* C01 bounded model: signed steps x single-point mutations of the         *)
(* presented state.  Every mutation kind is classified by the catalogue as *)
(* semantic (verification must fail) or non-semantic (must still pass);    *)
(* TLC checks that the rule-shaped VerifyRule, the implementation-shaped   *)
(* six-step VerifyImpl and the catalogue's classification all agree.       *)
(***************************************************************************)
EXTENDS VerifyCase, Json
CONSTANTS DoExport
VARIABLES c

Env(nil, m) == [nil |-> nil, m |-> m]
Plug(nil, l) == [nil |-> nil, l |-> l]
P1 == [src |-> "short", cfg |-> "kv"]
P2 == [src |-> "other", cfg |-> "null"]
P3 == [src |-> "other2", cfg |-> "deep_v"]
P4 == [src |-> "short", cfg |-> "lit:alpine"]          \* a plugin whose whole config is a bare scalar
P5 == [src |-> "other", cfg |-> "lit:x"]
P6 == [src |-> "short", cfg |-> "nest_map"]            \* a config holding an EMPTY mapping (and an empty-list element) below its top level
StepEnvs == {Env(TRUE, <<>>), Env(FALSE, <<>>), Env(FALSE, ("A" :> "1")), Env(FALSE, ("A" :> "1") @@ ("C" :> "3"))}
PluginLists == {Plug(TRUE, <<>>), Plug(FALSE, <<>>), Plug(FALSE, <<P1>>), Plug(FALSE, <<P1, P2>>), Plug(FALSE, <<P3>>),
                Plug(FALSE, <<P4>>), Plug(FALSE, <<P4, P5>>), Plug(FALSE, <<P6>>)}
Matrices == {"nil", "empty", "list_ab", "adj_base", "setup_os", "adj_tomb_v", "shadow_a", "dims_empty", "dims_mixed_a", "skiponly_t", "anon_plus_a"}       \* setup_os: exactly one NAMED dimension
PEnvs == {<<>>, ("A" :> "pa"), ("A" :> "pa") @@ ("B" :> "pb"), ("B" :> ""), ("A" :> "1") }     \* the last: the value a step's own A has
Keys == {[pair |-> "K1", alg |-> "EdDSA"], [pair |-> "K1", alg |-> "ES512"], [pair |-> "K1", alg |-> "PS512"], [pair |-> "K1", alg |-> "ES256"]}

Kinds == { "none",
  \* semantic: content
  "cmd", "cmd_crlf", "cmd_trailing_nl", "env_add", "env_remove", "env_change", "env_rename",
  "plug_add", "plug_remove", "plug_reorder", "plug_source", "plug_config", "plug_config_deep", "plug_config_scalar", "plug_null_vs_nonempty", "plug_config_nested_null", "plug_config_nested_list", "plug_config_nested_el",
  "repo_slash", "repo_dotgit", "repo_case",
  "matrix_add", "matrix_remove", "matrix_setup_value", "matrix_adj_with", "matrix_adj_skip", "matrix_adj_extra", "matrix_dim_rename", "matrix_dim_value", "matrix_dim_anon", "matrix_anon_plus_value", "matrix_anon_plus_removed", "matrix_adj_extra_last", "matrix_shadowed_setup", "matrix_empty_dim_rename", "matrix_mixed_dim_value", "matrix_skiponly_flip", "matrix_skiponly_reason", "matrix_skiponly_removed",
  "repo", "penv_value", "penv_removed", "penv_twin", "penv_shadowed",
  \* semantic: record and key
  "rec_alg", "fields_drop_mandatory", "signed_without_command", "signed_without_matrix", "signed_without_repo_dup", "fields_drop_env", "fields_add_env", "fields_add_unknown", "fields_empty",
  "value_splice", "value_bitflip", "value_attached", "value_attached_tamper", "key_other_same_alg", "key_other_alg", "keyset_without_signer", "keyset_empty", "plug_source_suffix",
  \* non-semantic
  "env_nil_vs_empty", "plugins_nil_vs_empty", "matrix_nil_vs_empty", "matrix_empty_alloc", "matrix_empty_adj", "plug_source_spelling", "plug_cfg_empty_vs_null",
  "venv_extra_unsigned", "venv_extra_fieldname", "fields_permuted", "fields_duplicate", "keyset_signer_plus_others" }
SetPlugin(p, i, x) == [p EXCEPT !.l[i] = x]
\* the presented content / env for a mutation kind; NA when the kind does not apply to this step
NA == [na |-> TRUE]
MutContent(o, kind) ==
    CASE kind \in {"cmd", "value_attached_tamper"} -> [o EXCEPT !.command = "echo other"]     \* (value_attached_tamper: changed content under a value that carries the original payload)
      [] kind = "cmd_crlf" -> [o EXCEPT !.command = "echo hello\r\n"]                       \* (the signed command of this kind ends in a bare line feed: see Init)
      [] kind = "cmd_trailing_nl" -> [o EXCEPT !.command = "echo hello\n"]
      [] kind = "env_add" -> [o EXCEPT !.env = Env(FALSE, ("Z" :> "9") @@ o.env.m)]
      [] kind = "env_remove" -> IF "A" \in DOMAIN o.env.m THEN [o EXCEPT !.env = Env(FALSE, [x \in DOMAIN o.env.m \ {"A"} |-> o.env.m[x]])] ELSE NA
      [] kind = "env_change" -> IF "A" \in DOMAIN o.env.m THEN [o EXCEPT !.env.m["A"] = "2"] ELSE NA
      [] kind = "env_rename" -> IF "A" \in DOMAIN o.env.m THEN [o EXCEPT !.env = Env(FALSE, ("A2" :> o.env.m["A"]) @@ [x \in DOMAIN o.env.m \ {"A"} |-> o.env.m[x]])] ELSE NA
      [] kind = "plug_add" -> [o EXCEPT !.plugins = Plug(FALSE, Append(o.plugins.l, [src |-> "other2", cfg |-> "null"]))]
      [] kind = "plug_remove" -> IF Len(o.plugins.l) > 0 THEN [o EXCEPT !.plugins = Plug(FALSE, Tail(o.plugins.l))] ELSE NA
      [] kind = "plug_reorder" -> IF Len(o.plugins.l) = 2 THEN [o EXCEPT !.plugins = Plug(FALSE, <<o.plugins.l[2], o.plugins.l[1]>>)] ELSE NA
      [] kind = "plug_source" -> IF Len(o.plugins.l) > 0 /\ o.plugins.l[1].src = "short" THEN [o EXCEPT !.plugins = SetPlugin(o.plugins, 1, [src |-> "other", cfg |-> o.plugins.l[1].cfg])] ELSE NA
      [] kind = "plug_source_suffix" -> IF Len(o.plugins.l) > 0 /\ o.plugins.l[1].src = "short" THEN [o EXCEPT !.plugins = SetPlugin(o.plugins, 1, [src |-> "suffixed", cfg |-> o.plugins.l[1].cfg])] ELSE NA
      [] kind = "plug_config" -> IF Len(o.plugins.l) > 0 /\ o.plugins.l[1].cfg = "kv" THEN [o EXCEPT !.plugins = SetPlugin(o.plugins, 1, [src |-> o.plugins.l[1].src, cfg |-> "kw"])] ELSE NA
      [] kind = "plug_config_deep" -> IF Len(o.plugins.l) > 0 /\ o.plugins.l[1].cfg = "deep_v" THEN [o EXCEPT !.plugins = SetPlugin(o.plugins, 1, [src |-> o.plugins.l[1].src, cfg |-> "deep_w"])] ELSE NA
      [] kind = "plug_config_scalar" -> IF Len(o.plugins.l) > 0 /\ o.plugins.l[1].cfg = "lit:alpine" THEN [o EXCEPT !.plugins = SetPlugin(o.plugins, 1, [src |-> o.plugins.l[1].src, cfg |-> "lit:debian"])] ELSE NA
      [] kind = "plug_config_nested_null" -> IF Len(o.plugins.l) > 0 /\ o.plugins.l[1].cfg = "nest_map" THEN [o EXCEPT !.plugins = SetPlugin(o.plugins, 1, [src |-> o.plugins.l[1].src, cfg |-> "nest_null"])] ELSE NA
      [] kind = "plug_config_nested_list" -> IF Len(o.plugins.l) > 0 /\ o.plugins.l[1].cfg = "nest_map" THEN [o EXCEPT !.plugins = SetPlugin(o.plugins, 1, [src |-> o.plugins.l[1].src, cfg |-> "nest_list"])] ELSE NA
      [] kind = "plug_config_nested_el" -> IF Len(o.plugins.l) > 0 /\ o.plugins.l[1].cfg = "nest_map" THEN [o EXCEPT !.plugins = SetPlugin(o.plugins, 1, [src |-> o.plugins.l[1].src, cfg |-> "nest_el_null"])] ELSE NA
      [] kind = "repo_slash" -> [o EXCEPT !.repo = "https://example.com/repo.git/"]          \* the repository URL is signed as written: no spelling is "the same"
      [] kind = "repo_dotgit" -> [o EXCEPT !.repo = "https://example.com/repo"]
      [] kind = "repo_case" -> [o EXCEPT !.repo = "https://Example.com/repo.git"]
      [] kind = "plug_null_vs_nonempty" -> IF Len(o.plugins.l) = 2 /\ o.plugins.l[2].cfg = "null" THEN [o EXCEPT !.plugins = SetPlugin(o.plugins, 2, [src |-> o.plugins.l[2].src, cfg |-> "bfalse"])] ELSE NA
      [] kind = "matrix_add" -> IF MatrixCanon[o.matrix] = "NONE" THEN [o EXCEPT !.matrix = "list_ab"] ELSE NA
      [] kind = "matrix_remove" -> IF MatrixCanon[o.matrix] # "NONE" THEN [o EXCEPT !.matrix = "nil"] ELSE NA
      [] kind = "matrix_setup_value" -> IF o.matrix = "list_ab" THEN [o EXCEPT !.matrix = "list_ac"] ELSE NA
      [] kind = "matrix_adj_with" -> IF o.matrix = "adj_base" THEN [o EXCEPT !.matrix = "adj_with2"] ELSE NA
      [] kind = "matrix_adj_skip" -> IF o.matrix = "adj_base" THEN [o EXCEPT !.matrix = "adj_skip"] ELSE NA
      [] kind = "matrix_adj_extra" -> IF o.matrix = "adj_base" THEN [o EXCEPT !.matrix = "adj_extra"] ELSE NA
      [] kind = "matrix_dim_rename" -> IF o.matrix = "setup_os" THEN [o EXCEPT !.matrix = "dim_arch"] ELSE NA       \* same values under another dimension name
      [] kind = "matrix_dim_value" -> IF o.matrix = "setup_os" THEN [o EXCEPT !.matrix = "setup_os2"] ELSE NA
      [] kind = "matrix_dim_anon" -> IF o.matrix = "setup_os" THEN [o EXCEPT !.matrix = "list_linux"] ELSE NA         \* same values, anonymous dimension
      [] kind = "matrix_adj_extra_last" -> IF o.matrix = "adj_tomb_v" THEN [o EXCEPT !.matrix = "adj_tomb_w"] ELSE NA   \* the last pair of an edited ordered map deep inside an adjustment
      [] kind = "matrix_shadowed_setup" -> IF o.matrix = "shadow_a" THEN [o EXCEPT !.matrix = "shadow_b"] ELSE NA     \* the real setup changes; a leftover key named `setup` stays the same
      [] kind = "matrix_empty_dim_rename" -> IF o.matrix = "dims_empty" THEN [o EXCEPT !.matrix = "dims_empty2"] ELSE NA        \* dimensions without values are content too
      [] kind = "matrix_skiponly_flip" -> IF o.matrix = "skiponly_t" THEN [o EXCEPT !.matrix = "skiponly_f"] ELSE NA     \* a matrix that is nothing but a skip marker is still signed content
      [] kind = "matrix_skiponly_reason" -> IF o.matrix = "skiponly_t" THEN [o EXCEPT !.matrix = "skiponly_s"] ELSE NA
      [] kind = "matrix_skiponly_removed" -> IF o.matrix = "skiponly_t" THEN [o EXCEPT !.matrix = "nil"] ELSE NA
      [] kind = "matrix_anon_plus_value" -> IF o.matrix = "anon_plus_a" THEN [o EXCEPT !.matrix = "anon_plus_b"] ELSE NA      \* the anonymous dimension NEXT TO a named one: the named one is content
      [] kind = "matrix_anon_plus_removed" -> IF o.matrix = "anon_plus_a" THEN [o EXCEPT !.matrix = "list_ab"] ELSE NA
      [] kind = "matrix_mixed_dim_value" -> IF o.matrix = "dims_mixed_a" THEN [o EXCEPT !.matrix = "dims_mixed_b"] ELSE NA
      [] kind = "repo" -> [o EXCEPT !.repo = "https://example.com/other.git"]
      [] kind = "signed_without_repo_dup" -> [o EXCEPT !.repo = "https://example.com/other.git"]     \* ... presented for ANOTHER repository
      [] kind = "penv_shadowed" -> IF "B" \notin DOMAIN o.env.m THEN [o EXCEPT !.env = Env(FALSE, ("B" :> "pb") @@ o.env.m)] ELSE NA
      [] kind = "env_nil_vs_empty" -> IF DOMAIN o.env.m = {} THEN [o EXCEPT !.env = Env(~o.env.nil, <<>>)] ELSE NA
      [] kind = "plugins_nil_vs_empty" -> IF Len(o.plugins.l) = 0 THEN [o EXCEPT !.plugins = Plug(~o.plugins.nil, <<>>)] ELSE NA
      [] kind = "matrix_nil_vs_empty" -> IF o.matrix = "nil" THEN [o EXCEPT !.matrix = "empty"] ELSE IF o.matrix = "empty" THEN [o EXCEPT !.matrix = "nil"] ELSE NA
      [] kind = "matrix_empty_alloc" -> IF o.matrix \in {"nil", "empty"} THEN [o EXCEPT !.matrix = "empty_alloc"] ELSE NA       \* allocated-but-empty containers: still no matrix
      [] kind = "matrix_empty_adj" -> IF o.matrix = "setup_os" THEN [o EXCEPT !.matrix = "setup_os_eadj"] ELSE NA               \* an explicitly empty adjustments list
      [] kind = "plug_source_spelling" -> IF Len(o.plugins.l) > 0 /\ o.plugins.l[1].src = "short" THEN [o EXCEPT !.plugins = SetPlugin(o.plugins, 1, [src |-> "canon", cfg |-> o.plugins.l[1].cfg])] ELSE NA
      [] kind = "plug_cfg_empty_vs_null" -> IF Len(o.plugins.l) = 2 /\ o.plugins.l[2].cfg = "null" THEN [o EXCEPT !.plugins = SetPlugin(o.plugins, 2, [src |-> o.plugins.l[2].src, cfg |-> "empty"])] ELSE NA
      [] OTHER -> o
MutVenv(penv, o, kind) ==
    CASE kind = "penv_value" -> IF DOMAIN penv \ DOMAIN o.env.m # {} THEN LET n == CHOOSE x \in DOMAIN penv \ DOMAIN o.env.m : TRUE IN [penv EXCEPT ![n] = "tampered"] ELSE NA
      [] kind = "penv_removed" -> IF DOMAIN penv \ DOMAIN o.env.m # {} THEN LET n == CHOOSE x \in DOMAIN penv \ DOMAIN o.env.m : TRUE IN [x \in DOMAIN penv \ {n} |-> penv[x]] ELSE NA
      [] kind = "penv_twin" -> IF "A" \in DOMAIN penv \ DOMAIN o.env.m                          \* the signed variable A is gone; a variable literally NAMED env::A carries its value
                               THEN ("env::A" :> penv["A"]) @@ [x \in DOMAIN penv \ {"A"} |-> penv[x]] ELSE NA
      [] kind = "penv_shadowed" -> IF "B" \in DOMAIN penv THEN penv ELSE NA
      [] kind = "venv_extra_unsigned" -> ("UNRELATED" :> "x") @@ penv
      [] kind = "venv_extra_fieldname" -> ("command" :> "x") @@ ("plugins" :> "y") @@ ("repository_url" :> "z") @@ penv   \* unsigned variables NAMED like signed fields
      [] kind = "fields_add_env" -> ("UNRELATED" :> "x") @@ penv
      [] OTHER -> penv
FieldOp(kind, signed) ==
    CASE kind = "fields_drop_mandatory" -> "drop:repository_url"
      [] kind = "signed_without_command" -> "drop:command"        \* (the VALUE is a real signature over the remaining fields: valueop "partial")
      [] kind = "signed_without_matrix" -> "drop:matrix"
      [] kind = "signed_without_repo_dup" -> "dropdup:repository_url"   \* a genuine signature over everything but the repository, whose field list names `command` twice (as many entries as there are mandatory fields)
      [] kind = "fields_drop_env" -> IF signed \ Mandatory # {} THEN "drop:" \o (CHOOSE f \in signed \ Mandatory : TRUE) ELSE "na"
      [] kind = "fields_add_env" -> "add:env::UNRELATED"
      [] kind = "fields_add_unknown" -> "add:bogus_field"
      [] kind = "fields_empty" -> "empty"
      [] kind = "fields_permuted" -> "reverse"
      [] kind = "fields_duplicate" -> "dup"
      [] OTHER -> "same"
Init ==
    \E se \in StepEnvs : \E pl \in PluginLists : \E mx \in Matrices : \E pe \in PEnvs : \E key \in Keys : \E kind \in Kinds :
      LET o == [command |-> IF kind = "cmd_crlf" THEN "echo hello\n" ELSE "echo hello", env |-> se, plugins |-> pl, matrix |-> mx, repo |-> "https://example.com/repo.git"]
          pc == MutContent(o, kind)
          pv == MutVenv(pe, o, kind)
          signed == SignRecord(o, pe, key)
          fop == FieldOp(kind, signed.fields)
      IN /\ pc # NA /\ pv # NA /\ fop # "na"
         /\ c = [orig |-> o, penv |-> pe, key |-> key, kind |-> kind, pc |-> pc, venv |-> pv, fieldop |-> fop,
                 algop |-> IF kind = "rec_alg" THEN "other" ELSE "same",
                 valueop |-> IF kind = "value_splice" THEN "splice" ELSE IF kind = "value_bitflip" THEN "bitflip"
                             ELSE IF kind \in {"value_attached", "value_attached_tamper"} THEN "attach"
                             ELSE IF kind \in {"signed_without_command", "signed_without_matrix", "signed_without_repo_dup"} THEN "partial" ELSE "same",
                 keyop |-> CASE kind = "key_other_same_alg" -> "other_same_alg" [] kind = "key_other_alg" -> "other_alg"
                             [] kind = "keyset_without_signer" -> "without_signer" [] kind = "keyset_empty" -> "empty"
                             [] kind = "keyset_signer_plus_others" -> "signer_plus" [] OTHER -> "signer"]
Next == FALSE /\ c' = c
Spec == Init /\ [][Next]_c

Impl == ImplOf(c)
Rule == RuleOf(c)
\* permuted / duplicated field lists name the same set: the rule compares sets
InvImplEqualsRule == (Impl = "ok") <=> Rule
InvCatalogue == (c.kind \in NonSemantic) <=> Rule          \* every semantic single-point change is rejected, every other one accepted
Export == DoExport => PrintT("CASE " \o ToJson([orig |-> c.orig, penv |-> c.penv, key |-> c.key, kind |-> c.kind, pc |-> c.pc, venv |-> c.venv,
                                                fieldop |-> c.fieldop, algop |-> c.algop, valueop |-> c.valueop, keyop |-> c.keyop, class |-> Impl]))
=============================================================================
