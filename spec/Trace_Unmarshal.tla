---------------------------- MODULE Trace_Unmarshal ----------------------------
(* C16 trace validation: every recorded ordered.Unmarshal of a document into a  *)
(* reflect.StructOf-built struct is judged by the rule-shaped partition Expect; *)
(* for alias-free targets without an inline struct, decoded into a zero-valued  *)
(* destination, the result must also equal yaml.v3's own decoding.              *)
EXTENDS Unmarshal, Json, IOUtils
Trace == ndJsonDeserialize(IOEnv.VERIF_TRACE)
N == Len(Trace)
VARIABLES l, bad, mach
vars == <<l, bad, mach>>
\* JSON gives arrays as tuples; the descriptor's aliases may come as the empty tuple
Desc(e) == [i \in 1..Len(e.c.desc) |-> [name |-> e.c.desc[i].name, key |-> e.c.desc[i].key, aliases |-> e.c.desc[i].aliases,
                                        role |-> e.c.desc[i].role, type |-> e.c.desc[i].type]]
AliasFree(d) == \A i \in 1..Len(d) : Len(d[i].aliases) = 0
NoInlineStruct(d) == \A i \in 1..Len(d) : ~(d[i].role = "inline" /\ d[i].type # "inline_map")
\* hand-written targets with an EMBEDDED inline struct (alias-free, zero-valued): what yaml.v3 gives
EmbeddedOK(e) == ~e.panic /\ ~e.err /\ ~e.yerr /\ EqUnord(e.ordered, e.yamlv3)
EventOK(e) ==
    IF "kind" \in DOMAIN e /\ e.kind = "embedded" THEN EmbeddedOK(e) ELSE
    LET d == Desc(e) IN
    /\ ~e.panic
    /\ ~e.err                                                        \* well-typed input never fails
    /\ EqUnord(e.ordered, Expect(d, e.c.doc, e.start))               \* each key consumed by exactly one place
    /\ (~e.c.pre /\ AliasFree(d) /\ NoInlineStruct(d)) => (~e.yerr /\ EqUnord(e.ordered, e.yamlv3))
Init == l = 1 /\ bad = {} /\ mach = {}
Next == /\ l <= N
        /\ l' = l + 1
        /\ mach' = mach
        /\ bad' = IF EventOK(Trace[l]) THEN bad ELSE bad \cup {l}
Spec == Init /\ [][Next]_vars
Report == (l = N + 1) => PrintT("VERIF_DONE " \o ToJson([n |-> N, bad |-> bad, mach |-> mach]))
=============================================================================
