SPECIFICATION Spec
CONSTANTS
  DoExport = FALSE
  SourceTable <- ST
  FixEmptyAlias = FALSE
  FixEmptySliceAny = TRUE
INVARIANTS InvParseMarshalEqualsNormal InvNoLoss
CHECK_DEADLOCK FALSE
