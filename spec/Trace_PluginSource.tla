------------------------- MODULE Trace_PluginSource -------------------------
(* C17 trace validation: FullSource, FullSource of the result, and the key   *)
(* of the marshalled plugin, judged by the rule-shaped Canon.                *)
EXTENDS PluginSource, Json, IOUtils, TLC
Trace == ndJsonDeserialize(IOEnv.VERIF_TRACE)
N == Len(Trace)
VARIABLES l, bad, mach
vars == <<l, bad, mach>>
Tok(e) == [prefix |-> e.c.prefix, segs |-> e.c.segs, ref |-> e.c.ref, trail |-> e.c.trail]
WellFormed(e) == e.c.spelled = Spell(Tok(e))           \* harness and spec agree on the input string
EventOK(e) ==
    /\ ~e.panic
    /\ e.full = Canon(Tok(e))                          \* the documented rules
    /\ e.full2 = e.full                                \* canonicalising a canonical source changes nothing
    /\ e.key = e.full /\ e.ykey = e.full               \* identity used in the marshalled (signed) form
Init == l = 1 /\ bad = {} /\ mach = {}
Next == /\ l <= N
        /\ l' = l + 1
        /\ mach' = IF WellFormed(Trace[l]) THEN mach ELSE mach \cup {l}
        /\ bad' = IF ~WellFormed(Trace[l]) \/ EventOK(Trace[l]) THEN bad ELSE bad \cup {l}
Spec == Init /\ [][Next]_vars
Report == (l = N + 1) => PrintT("VERIF_DONE " \o ToJson([n |-> N, bad |-> bad, mach |-> mach]))
=============================================================================
