------------------------- MODULE Trace_OrderedMap -------------------------
(***************************************************************************)
(* Trace validation for C05: a recorded behaviour of the REAL ordered.Map  *)
(* (one event per public call, logged at its return, panic flag included)  *)
(* is checked step by step against the list-of-pairs specification         *)
(* OrderedMap.  Several traces are concatenated; "reset" starts the next.  *)
(* An event the specification cannot explain is recorded in `bad` and the  *)
(* validation resumes at the next reset, so one run finds every failing    *)
(* trace.  The spec is deterministic: validation is linear in the trace.   *)
(***************************************************************************)
EXTENDS OrderedMap, Json, IOUtils

Trace == ndJsonDeserialize(IOEnv.VERIF_TRACE)
N == Len(Trace)

VARIABLES l, pairs, bad
vars == <<l, pairs, bad>>

KV(x) == [i \in 1..Len(x) |-> P(x[i][1], x[i][2])]          \* [[k,v],...] -> pair list
MV(x) == IF x.nil THEN NIL ELSE AV(KV(x.kv))                  \* {nil,kv} -> map value
GetR(g) == IF g[2] THEN [none |-> FALSE, v |-> g[3]] ELSE NONE  \* [k, found, v]
AsSet(x) == {P(x[i][1], x[i][2]) : i \in 1..Len(x)}
FnOf(f) == [k \in {f[i][1] : i \in 1..Len(f)} |->
              LET i == CHOOSE j \in 1..Len(f) : f[j][1] = k IN [k |-> f[i][2], v |-> f[i][3]]]

\* ----- the specification's next abstract value for an event -----
NewPairs(p, e) ==
    CASE e.op = "reset"   -> (IF e.init = "nil" THEN NIL ELSE AV(<<>>))
      [] e.op = "restore" -> MV(e.want)
      [] e.op = "set"     -> ASet(p, e.k, e.v)
      [] e.op = "replace" -> AReplace(p, e.old, e.new, e.v)
      [] e.op = "delete"  -> ADelete(p, e.k)
      [] e.op = "rangerename" -> ARangeRename(p, FnOf(e.f)).pairs
      [] e.op = "fromitems" -> AMapFromItems(KV(e.items))                \* a constructor: starts a new map
      [] OTHER -> p                                           \* observers do not mutate

\* cheap scalars logged with every mutator event
ScalarsOK(q, e) ==
    /\ e.len = ALen(q)
    /\ e.iszero = AIsZero(q)
    /\ \A i \in 1..Len(e.gets) : GetR(e.gets[i]) = AGet(q, e.gets[i][1])
    /\ (e.full => KV(e.range) = ARange(q))

\* every observer, logged by "observe" events
ObserveOK(q, e) ==
    /\ e.len = ALen(q)
    /\ e.iszero = AIsZero(q)
    /\ KV(e.range) = ARange(q)
    /\ \A i \in 1..Len(e.gets) :
          /\ GetR(e.gets[i]) = AGet(q, e.gets[i][1])
          /\ e.gets[i][4] = AContains(q, e.gets[i][1])
    /\ e.tomapnil = q.nil
    /\ AsSet(e.tomap) = AsSet([i \in 1..Len(q.kv) |-> <<q.kv[i].k, q.kv[i].v>>])
    /\ Len(e.tomap) = ALen(q)
    /\ (~q.nil => (~e.json.nil /\ KV(e.json.kv) = ARange(q)))     \* nil may encode as null
    /\ (q.nil => e.json.kv = <<>>)
    /\ (~q.nil => (~e.yaml.nil /\ KV(e.yaml.kv) = ARange(q)))
    /\ (q.nil => e.yaml.kv = <<>>)
    /\ e.equalself                                                \* reflexive
    /\ \A i \in 1..Len(e.others) :                                \* Equal against independently built maps
          LET o == e.others[i] IN
          /\ o.ab = AEqual(q, MV(o.m))                             \* true exactly when keys, values, order match
          /\ o.ba = o.ab                                           \* symmetric

OK(p, e) ==
    /\ ~e.panic
    /\ CASE e.op = "reset"   -> TRUE
         [] e.op = "restore" -> MV(e.got) = MV(e.want)
         [] e.op \in {"set", "replace"} -> ~p.nil /\ ScalarsOK(NewPairs(p, e), e)
         [] e.op = "delete"  -> ScalarsOK(NewPairs(p, e), e)
         [] e.op = "observe" -> ObserveOK(p, e)
         [] e.op = "rangerename" ->
               /\ KV(e.yields) = ARangeRename(p, FnOf(e.f)).yields
               /\ KV(e.range) = ARange(NewPairs(p, e))
               /\ e.len = ALen(NewPairs(p, e))
         [] e.op = "fromitems" -> KV(e.range) = ARange(NewPairs(p, e)) /\ e.len = ALen(NewPairs(p, e))
         [] e.op = "derive" ->                                          \* TransformValues / AssertValues / ToMapRecursive: derived, source untouched
               /\ KV(e.transformed) = LTransform(p.kv, "!")              \* same keys, same order, mapped values (a nil map: none)
               /\ KV(e.asserted) = p.kv /\ e.assertok                   \* all values assertable: same map
               /\ ~e.assertbadok                                        \* one value not assertable: an error, not a partial map
               /\ AsSet(e.tomaprec) = AsSet([i \in 1..Len(p.kv) |-> <<p.kv[i].k, p.kv[i].v>>])
               /\ KV(e.range) = p.kv                                    \* the source is unchanged
         [] OTHER -> FALSE

\* after an unexplained event, resume where the state is re-established
Resume(e) == e.op \in {"reset", "restore", "fromitems"}
RECURSIVE NextReset(_)
NextReset(i) == IF i + 1 > N THEN N + 1
                ELSE IF Resume(Trace[i + 1]) THEN i + 1 ELSE NextReset(i + 1)

Init == l = 1 /\ pairs = AV(<<>>) /\ bad = {}

Next == /\ l <= N
        /\ LET e == Trace[l] IN
           IF OK(pairs, e)
           THEN /\ pairs' = NewPairs(pairs, e) /\ l' = l + 1 /\ bad' = bad
           ELSE /\ pairs' = pairs /\ l' = NextReset(l) /\ bad' = bad \cup {l}

Spec == Init /\ [][Next]_vars

\* reported once, in the final state
Report == (l = N + 1) => PrintT("VERIF_DONE " \o ToJson([n |-> N, bad |-> bad]))
=============================================================================
