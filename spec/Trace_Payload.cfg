SPECIFICATION Spec
CONSTANTS
  EnvNames = {"A", "B", "a"}
INVARIANT Report
CHECK_DEADLOCK FALSE
