SPECIFICATION Spec
CONSTANTS
  EnvNames = {"A", "B", "a", "env::A"}
INVARIANT Report
CHECK_DEADLOCK FALSE
