---------------------------- MODULE MatrixInterp ----------------------------
(***************************************************************************)
(* C12: matrix interpolation of a command step.                            *)
(* A string is a sequence of tokens:                                       *)
(*   [t |-> "lit",  s]            plain text without braces                *)
(*   [t |-> "tok",  d, a, b]      {{<a>matrix[.d]<b>}}  (a, b: inner       *)
(*                                whitespace; d = "" is the anonymous      *)
(*                                dimension)                               *)
(*   [t |-> "near", s]            a look-alike that is NOT a token         *)
(* MReplace is the single pass: every token becomes its dimension's value; *)
(* values are never looked at again; a token whose dimension the           *)
(* permutation lacks makes the call fail.                                  *)
(* Scope (rule-shaped, XStep): command, label, plugin sources and configs  *)
(* (keys and values), env VALUES, unknown fields (keys and values); NOT    *)
(* env names, the step key, the matrix definition, the signature.          *)
(***************************************************************************)
EXTENDS AV

MLit(s) == [t |-> "lit", s |-> s]
MTok(d, a, b) == [t |-> "tok", d |-> d, a |-> a, b |-> b]
MNear(s) == [t |-> "near", s |-> s]

MSpellTok(x) ==
    IF x.t = "tok" THEN "{{" \o x.a \o "matrix" \o (IF x.d = "" THEN "" ELSE "." \o x.d) \o x.b \o "}}" ELSE x.s
RECURSIVE MSpell(_)
MSpell(segs) == IF Len(segs) = 0 THEN "" ELSE MSpellTok(Head(segs)) \o MSpell(Tail(segs))

MUnknown(segs, p) == \E i \in 1..Len(segs) : segs[i].t = "tok" /\ segs[i].d \notin DOMAIN p
RECURSIVE MReplace(_, _)
MReplace(segs, p) ==
    IF Len(segs) = 0 THEN ""
    ELSE (IF Head(segs).t = "tok"
          THEN (IF Head(segs).d \in DOMAIN p THEN p[Head(segs).d] ELSE "")
          ELSE Head(segs).s) \o MReplace(Tail(segs), p)

\* implementation-shaped: ReplaceAllStringFunc scans left to right, collecting unknown dimensions
RECURSIVE MScan(_, _, _, _)
MScan(segs, p, out, unknown) ==
    IF Len(segs) = 0 THEN [s |-> out, err |-> unknown # <<>>]
    ELSE LET x == Head(segs) IN
         IF x.t # "tok" THEN MScan(Tail(segs), p, out \o x.s, unknown)
         ELSE IF x.d \in DOMAIN p THEN MScan(Tail(segs), p, out \o p[x.d], unknown)
         ELSE MScan(Tail(segs), p, out, Append(unknown, x.d))

(* ---------------- the step transformation ---------------- *)
XS(D, p, s) == IF s \in DOMAIN D THEN MReplace(D[s], p) ELSE s

\* roles: "cstep" the command step mapping; "env"; "in" anything in scope
RECURSIVE XM(_, _, _, _)
XM(D, p, a, role) ==
    CASE a.t = "s" -> Str(XS(D, p, a.v))
      [] a.t = "q" -> [t |-> "q", e |-> [i \in 1..Len(a.e) |-> XM(D, p, a.e[i], "in")]]
      [] a.t = "m" ->
           [t |-> "m", kv |-> [i \in 1..Len(a.kv) |->
               LET k == a.kv[i][1]
                   v == a.kv[i][2]
               IN IF role = "cstep"
                  THEN (CASE k \in {"key", "matrix", "signature", "cache"} -> <<k, v>>      \* out of scope
                          [] k = "env" -> <<k, XM(D, p, v, "env")>>
                          [] k \in {"command", "label", "plugins"} -> <<k, XM(D, p, v, "in")>>
                          [] OTHER -> <<XS(D, p, k), XM(D, p, v, "in")>>)                  \* unknown field: key and value
                  ELSE IF role = "env" THEN <<k, XM(D, p, v, "in")>>                        \* env names stay, values change
                  ELSE <<XS(D, p, k), XM(D, p, v, "in")>>]]
      [] OTHER -> a

\* strings at in-scope positions (for the failure condition)
RECURSIVE InScope(_, _)
InScope(a, role) ==
    CASE a.t = "s" -> <<a.v>>
      [] a.t = "q" -> Flatten([i \in 1..Len(a.e) |-> InScope(a.e[i], "in")])
      [] a.t = "m" ->
           Flatten([i \in 1..Len(a.kv) |->
               LET k == a.kv[i][1]
                   v == a.kv[i][2]
               IN IF role = "cstep"
                  THEN (CASE k \in {"key", "matrix", "signature", "cache"} -> <<>>
                          [] k = "env" -> InScope(v, "env")
                          [] k \in {"command", "label", "plugins"} -> InScope(v, "in")
                          [] OTHER -> <<k>> \o InScope(v, "in"))
                  ELSE IF role = "env" THEN InScope(v, "in")
                  ELSE <<k>> \o InScope(v, "in")])
      [] OTHER -> <<>>
=============================================================================
