--------------------------------- MODULE AV ---------------------------------
(***************************************************************************)
(* Abstract values: the tree-shaped data that crosses the Go/TLC boundary. *)
(*   [t |-> "s", v |-> string]   [t |-> "n", v |-> canonical number text]  *)
(*   [t |-> "b", v |-> BOOLEAN]  [t |-> "z"]  (null)                       *)
(*   [t |-> "q", e |-> <<AV...>>]                                          *)
(*   [t |-> "m", kv |-> << <<key, AV>>, ... >>]   pairs in observed order  *)
(* Order is always carried; whether it is significant is up to the user:   *)
(* EqOrd compares mappings as sequences, EqUnord as sets of pairs.         *)
(***************************************************************************)
EXTENDS Sequences, Integers, FiniteSets

Str(s) == [t |-> "s", v |-> s]
Null == [t |-> "z"]
IsMap(a) == a.t = "m"
IsSeq(a) == a.t = "q"
IsStr(a) == a.t = "s"

Keys(a) == {a.kv[i][1] : i \in 1..Len(a.kv)}
HasKey(a, k) == IsMap(a) /\ \E i \in 1..Len(a.kv) : a.kv[i][1] = k
Get(a, k) == a.kv[CHOOSE i \in 1..Len(a.kv) : a.kv[i][1] = k][2]
KeySeq(a) == [i \in 1..Len(a.kv) |-> a.kv[i][1]]
UniqueKeys(a) == \A i, j \in 1..Len(a.kv) : i # j => a.kv[i][1] # a.kv[j][1]

RECURSIVE EqUnord(_, _)
EqUnord(a, b) ==
    /\ a.t = b.t
    /\ CASE a.t = "m" -> /\ Len(a.kv) = Len(b.kv)
                         /\ \A i \in 1..Len(a.kv) : \E j \in 1..Len(b.kv) :
                               a.kv[i][1] = b.kv[j][1] /\ EqUnord(a.kv[i][2], b.kv[j][2])
                         /\ \A j \in 1..Len(b.kv) : \E i \in 1..Len(a.kv) : a.kv[i][1] = b.kv[j][1]
         [] a.t = "q" -> Len(a.e) = Len(b.e) /\ \A i \in 1..Len(a.e) : EqUnord(a.e[i], b.e[i])
         [] OTHER -> a = b

RECURSIVE EqOrd(_, _)
EqOrd(a, b) ==
    /\ a.t = b.t
    /\ CASE a.t = "m" -> Len(a.kv) = Len(b.kv) /\ \A i \in 1..Len(a.kv) : a.kv[i][1] = b.kv[i][1] /\ EqOrd(a.kv[i][2], b.kv[i][2])
         [] a.t = "q" -> Len(a.e) = Len(b.e) /\ \A i \in 1..Len(a.e) : EqOrd(a.e[i], b.e[i])
         [] OTHER -> a = b

RECURSIVE Flatten(_)
Flatten(ss) == IF Len(ss) = 0 THEN <<>> ELSE Head(ss) \o Flatten(Tail(ss))
=============================================================================
