--------------------------- MODULE Trace_RoundTrip ---------------------------
(* C02 trace validation: a generated pipeline is parsed, (optionally          *)
(* interpolated,) signed with a real key, marshalled, its keys reordered the  *)
(* way a backend may, re-parsed through one of the two entry points and every *)
(* command step verified with the public key.  Per step: the signed content   *)
(* before and after (AV) and the verdict of the real Verify.                  *)
EXTENDS AV, Json, IOUtils, TLC
Trace == ndJsonDeserialize(IOEnv.VERIF_TRACE)
N == Len(Trace)
VARIABLES l, bad, mach
vars == <<l, bad, mach>>
EventOK(e) ==
    /\ ~e.panic /\ e.failed = ""
    /\ e.nbefore = Len(e.steps)                                   \* every signed command step came back
    /\ \A i \in 1..Len(e.steps) :
          /\ e.steps[i].hassig                                     \* with its signature
          /\ EqUnord(e.steps[i].before, e.steps[i].after)          \* with the same signed content
          /\ e.steps[i].verified                                   \* and the signature verifies
Init == l = 1 /\ bad = {} /\ mach = {}
Next == /\ l <= N
        /\ l' = l + 1
        /\ mach' = mach
        /\ bad' = IF EventOK(Trace[l]) THEN bad ELSE bad \cup {l}
Spec == Init /\ [][Next]_vars
Report == (l = N + 1) => PrintT("VERIF_DONE " \o ToJson([n |-> N, bad |-> bad, mach |-> mach]))
=============================================================================
