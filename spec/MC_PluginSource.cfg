SPECIFICATION Spec
CONSTANTS
  Names = {"docker", "my.plug_in-2", "ORG", "x", "github.com", "Buildkite-Plugins"}
  RefSegs = {"v1.2.3", "main", "feature", "0"}
  MaxSegs = 4
  MaxRef = 2
  DoExport = TRUE
INVARIANTS InvImplEqualsRule InvIdempotent Export
CHECK_DEADLOCK FALSE
