SPECIFICATION Spec
CONSTANTS
  MaxEntries = 3
  MaxDepth = 2
INVARIANTS InvComplete InvHardOnlyWhenUnavoidable
CHECK_DEADLOCK FALSE
