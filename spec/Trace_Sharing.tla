---------------------------- MODULE Trace_Sharing ----------------------------
(* C19 trace validation.  Event streams of 16 goroutines (race detector on)   *)
(* and of a sequential reference run:                                         *)
(*  own      an operation on a goroutine's OWN object: its result digest must *)
(*           equal the sequential reference run's for the same work item      *)
(*  observe  a read-only operation on a SHARED, published object (or on the   *)
(*           goroutine's own): the object's deep-representation digest is     *)
(*           unchanged by it, equals the digest at publication, and the       *)
(*           result equals the reference result                               *)
(*  race     the race detector reported a data race: the specification has no *)
(*           action for that                                                  *)
EXTENDS Json, IOUtils, TLC, Sequences, Integers
Trace == ndJsonDeserialize(IOEnv.VERIF_TRACE)
N == Len(Trace)
VARIABLES l, bad, mach
vars == <<l, bad, mach>>
EventOK(e) ==
    CASE e.kind = "own" -> ~e.panic /\ e.result = e.refresult
      [] e.kind = "observe" -> /\ ~e.panic
                               /\ e.repafter = e.repbefore                  \* observers never modify what they observe
                               /\ e.repbefore = e.reppublished              \* nobody else modified it either
                               /\ e.result = e.refresult                    \* same answer as sequentially
      [] e.kind = "race" -> FALSE
      [] OTHER -> FALSE
Init == l = 1 /\ bad = {} /\ mach = {}
Next == /\ l <= N
        /\ l' = l + 1
        /\ mach' = mach
        /\ bad' = IF EventOK(Trace[l]) THEN bad ELSE bad \cup {l}
Spec == Init /\ [][Next]_vars
Report == (l = N + 1) => PrintT("VERIF_DONE " \o ToJson([n |-> N, bad |-> bad, mach |-> mach]))
=============================================================================
