SPECIFICATION Spec
CONSTANTS
  Types = {"command", "script", "wait", "waiter", "block", "input", "manual", "trigger", "group", "", "Command", "WAIT", "steps", "commands", "unknown", "block "}
  Extras = {"<none>", "zzz", "", "Command", "waits", "steps", "label", "key"}
  Scalars = {"wait", "waiter", "block", "input", "manual", "", "Wait", "WAIT", "waits", "command", "trigger", "group", "wait ", " block", "null", "true", "1"}
  DoExport = TRUE
INVARIANTS InvImplEqualsRule InvSentinel Export
CHECK_DEADLOCK FALSE
