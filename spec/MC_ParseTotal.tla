---------------------------- MODULE MC_ParseTotal ----------------------------
(* C13 bounded model: every list of <= MaxEntries step entries over the entry   *)
(* classes, groups nested to MaxDepth.  The protocol is complete: unless the    *)
(* parse hard-fails, one step per entry (recursively), unknown steps verbatim,  *)
(* and exactly one fallback warning per unknown step.                           *)
EXTENDS ParseTotal, TLC
CONSTANTS MaxEntries, MaxDepth
VARIABLES es
Leaves == {[cls |-> "typed", kind |-> k] : k \in {"command", "wait"}} \cup {[cls |-> "badtyped", kind |-> "command"], [cls |-> "nokind"],
           [cls |-> "scalar", ok |-> TRUE], [cls |-> "scalar", ok |-> FALSE], [cls |-> "hard"]}
RECURSIVE Lists(_, _)
Lists(n, d) == {<<>>} \cup (IF n = 0 THEN {} ELSE
                 {<<e>> \o rest : e \in Leaves \cup (IF d > 0 THEN {[cls |-> "group", kids |-> k, bad |-> b] : k \in Lists(n - 1, d - 1), b \in BOOLEAN} ELSE {}),
                                  rest \in Lists(n - 1, d)})
Init == es \in Lists(MaxEntries, MaxDepth)
Next == FALSE /\ es' = es
Spec == Init /\ [][Next]_es
InvComplete == Complete(es, ParseSteps(es))
InvHardOnlyWhenUnavoidable == ParseSteps(es).hard <=> \E i \in 1..Len(es) : es[i].cls = "hard"
=============================================================================
