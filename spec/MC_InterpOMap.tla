---------------------------- MODULE MC_InterpOMap ----------------------------
(***************************************************************************)
(* C04 bounded model for ORDERED maps (plugin configs, unknown fields,     *)
(* matrix setup: anything decoded into ordered.Map).  The map is walked    *)
(* in order, one pair per step, keys and values expanded once each.        *)
(*                                                                         *)
(* RenameInPlace = TRUE is interpolateOrderedMap at the pinned commit: the *)
(* callback of Range renames the current slot with Replace, which          *)
(* tombstones any OTHER slot already holding the new key - including a     *)
(* later, not yet visited one ({"$$A": .., "$A": ..}): TLC finds the lost  *)
(* pair (known_findings F14).  FALSE is the repaired code: pairs are       *)
(* collected aside and the map is rebuilt with MapFromItems.               *)
(* Both run on the slot-level model of ordered/map.go (OrderedMapImpl).    *)
(***************************************************************************)
EXTENDS OrderedMapImpl, Interp
CONSTANTS N, RenameInPlace
VARIABLES orig, m, i, n0, pairs, pc
vars == <<orig, m, i, n0, pairs, pc>>
Env == ("A" :> "va") @@ ("Q" :> "BAD")
KeyPool == { <<Esc("A", "dd")>>, <<Ref("A", "plain")>>, <<Lit("va")>>, <<Lit("k-"), Ref("A", "brace")>>, <<Esc("Q", "bs")>>, <<Lit("$Q")>> }
ValPool == { <<Lit("x-"), Ref("A", "brace")>>, <<Esc("Q", "dd")>> }

X(s) == ExpandStr("exact", Env, s)
\* no two pairs end under the same key (which pair survives a true collision is not stated)
NoResultCollision(o) == \A a, b \in 1..Len(o) : a # b => X(o[a].k) # X(o[b].k)

FromList(l) == LET RECURSIVE Build(_)
                   Build(j) == IF j = 0 THEN EmptyMap ELSE ISet(Build(j - 1), l[j].k, l[j].v)
               IN Build(Len(l))

Init == /\ \E len \in 0..N : orig \in [1..len -> [k : KeyPool, v : ValPool]]
        /\ \A a, b \in 1..Len(orig) : a # b => Spell(orig[a].k) # Spell(orig[b].k)       \* a map: written keys distinct
        /\ NoResultCollision(orig)
        /\ m = FromList([j \in 1..Len(orig) |-> P(Spell(orig[j].k), Spell(orig[j].v))])
        /\ i = 1 /\ n0 = Len(orig) /\ pairs = <<>> /\ pc = "range"

\* token form of a written string (the walk only sees strings)
TokOf(s) == LET c == {j \in 1..Len(orig) : Spell(orig[j].k) = s} IN orig[CHOOSE j \in c : TRUE].k
VTokOf(s) == LET c == {j \in 1..Len(orig) : Spell(orig[j].k) = s} IN orig[CHOOSE j \in c : TRUE].v

Step ==                                   \* one iteration of `for _, p := range m.items`
    /\ pc = "range" /\ i <= n0
    /\ IF m.items[i].d THEN UNCHANGED <<m, pairs>>          \* tombstones are skipped
       ELSE LET k == m.items[i].k
                nk == X(TokOf(k))
                nv == X(VTokOf(k))
            IN IF RenameInPlace THEN m' = IReplace(m, k, nk, nv) /\ UNCHANGED pairs
               ELSE pairs' = Append(pairs, P(nk, nv)) /\ UNCHANGED m
    /\ i' = i + 1 /\ UNCHANGED <<orig, n0, pc>>
Finish ==
    /\ pc = "range" /\ i > n0
    /\ m' = IF RenameInPlace THEN m ELSE FromList(pairs)
    /\ pc' = "done" /\ UNCHANGED <<orig, i, n0, pairs>>
Next == Step \/ Finish
Spec == Init /\ [][Next]_vars /\ WF_vars(Next)

Want == [j \in 1..Len(orig) |-> P(X(orig[j].k), X(orig[j].v))]       \* the rule: every pair, in place, one pass
InvAtDone == pc = "done" => IRange(m) = Want /\ Consistent(m)
InvNothingLostMidway == pc = "range" /\ RenameInPlace = FALSE => IRange(m) = [j \in 1..Len(orig) |-> P(Spell(orig[j].k), Spell(orig[j].v))]
Termination == <>(pc = "done")
=============================================================================
