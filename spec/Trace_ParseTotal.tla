--------------------------- MODULE Trace_ParseTotal ---------------------------
(* C13 trace validation: one event per real Parse of some bytes.               *)
(*  outcome   "hard" (non-warning error) | "warn" | "ok"                        *)
(*  instep    the input's step sequence as the harness reads it from the raw    *)
(*            YAML nodes (hasin = FALSE when it cannot: then only totality,     *)
(*            marshalling and warning accounting are judged)                    *)
(*  outsteps  the `steps` of json.Marshal(result); kinds: the dynamic step      *)
(*            kinds, recursively                                                *)
(*  nunknown / nfallback  unknown steps in the result / fallback reports in     *)
(*            the warning tree                                                  *)
EXTENDS AV, Json, IOUtils, TLC
Trace == ndJsonDeserialize(IOEnv.VERIF_TRACE)
N == Len(Trace)
VARIABLES l, bad, mach
vars == <<l, bad, mach>>
Null_ == [t |-> "z"]
RECURSIVE ShapeOK(_, _, _)
ShapeOK(ins, outs, kinds) ==
    /\ Len(ins) = Len(outs) /\ Len(kinds) = Len(outs)                      \* exactly one step per entry, in order
    /\ \A i \in 1..Len(outs) :
          /\ outs[i] # Null_ /\ kinds[i].k # "nil"                          \* non-nil
          /\ kinds[i].k = "group" =>                                        \* recursively inside groups
                /\ ins[i].t = "m" /\ outs[i].t = "m" /\ HasKey(outs[i], "steps") /\ Get(outs[i], "steps").t = "q"
                /\ ShapeOK(IF HasKey(ins[i], "steps") /\ Get(ins[i], "steps").t = "q" THEN Get(ins[i], "steps").e ELSE <<>>,
                           Get(outs[i], "steps").e, kinds[i].kids)
          /\ kinds[i].k = "unknown" => EqOrd(outs[i], ins[i])               \* kept verbatim
EventOK(e) ==
    /\ ~e.panic /\ ~e.timeout /\ ~e.crash                                   \* never panics (or dies), returns in bounded time
    /\ e.outcome # "hard" =>
          /\ e.jsonok /\ e.yamlok                                           \* marshalling the usable result succeeds
          /\ e.stepsislist                                                  \* the step list is non-nil
          /\ e.hasin => ShapeOK(e.instep.e, e.outsteps.e, e.kinds)
          /\ e.nunknown = e.nfallback                                       \* each fallback is reported in the warning
          /\ e.nunknown > 0 => e.outcome = "warn"
Init == l = 1 /\ bad = {} /\ mach = {}
Next == /\ l <= N
        /\ l' = l + 1
        /\ mach' = mach
        /\ bad' = IF EventOK(Trace[l]) THEN bad ELSE bad \cup {l}
Spec == Init /\ [][Next]_vars
Report == (l = N + 1) => PrintT("VERIF_DONE " \o ToJson([n |-> N, bad |-> bad, mach |-> mach]))
=============================================================================
