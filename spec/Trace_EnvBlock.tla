---------------------------- MODULE Trace_EnvBlock ----------------------------
(* C10 trace validation: one event per real Pipeline.Interpolate call on a     *)
(* document whose env block, runtime env, precedence flag and name equality    *)
(* are given; judged by the rule-shaped fold FoldBlock.                        *)
EXTENDS Interp, Json, IOUtils
Trace == ndJsonDeserialize(IOEnv.VERIF_TRACE)
N == Len(Trace)
VARIABLES l, bad, mach
vars == <<l, bad, mach>>

Block(e) == [j \in 1..Len(e.c.block) |-> [k |-> e.c.block[j].ktok, v |-> e.c.block[j].vtok]]
Env0(e) == [x \in DOMAIN e.c.env0 |-> e.c.env0[x]]
KV(x) == [j \in 1..Len(x) |-> P(x[j][1], x[j][2])]
RECURSIVE ProbeStr(_, _, _)
ProbeStr(mode, env, names) ==
    IF Len(names) = 0 THEN ""
    ELSE "<" \o Head(names) \o "=" \o Val(mode, env, Head(names)) \o ">" \o ProbeStr(mode, env, Tail(names))

WellFormed(e) == \A j \in 1..Len(e.c.block) :
                    e.c.block[j].k = Spell(e.c.block[j].ktok) /\ e.c.block[j].v = Spell(e.c.block[j].vtok)

\* the probe step also repeats every value string of the block: expanded AFTER the block, under the final env
RECURSIVE Repeats(_, _, _, _)
Repeats(mode, env, blk, j) == IF j > Len(blk) THEN "" ELSE ExpandStr(mode, env, blk[j].v) \o ";" \o Repeats(mode, env, blk, j + 1)
\* two entries END under one name: which of them survives is not stated (the verdict on values, probes and exports is
\* withheld) - but the rewritten block is still a mapping: one entry per final name, each an entry the fold produced
Collides(e) == LET want == FoldBlock(e.c.mode, e.c.prefer, Block(e), Env0(e))
               IN ~want.err /\ \E i, j \in 1..Len(want.block) : i # j /\ want.block[i].k = want.block[j].k
CollideOK(e) ==
    LET want == FoldBlock(e.c.mode, e.c.prefer, Block(e), Env0(e)) IN
    /\ ~e.panic
    /\ \/ e.err
       \/ /\ e.wf
          /\ \A i, j \in 1..Len(e.block) : i # j => e.block[i][1] # e.block[j][1]
          /\ {e.block[i][1] : i \in 1..Len(e.block)} = {want.block[i].k : i \in 1..Len(want.block)}
          /\ \A i \in 1..Len(e.block) : \E j \in 1..Len(want.block) : want.block[j] = P(e.block[i][1], e.block[i][2])
EventOK(e) ==
    IF Collides(e) THEN CollideOK(e) ELSE
    LET want == FoldBlock(e.c.mode, e.c.prefer, Block(e), Env0(e))
        \* (a BARE pipeline - nothing but the env block: no step, no other top-level key - has no "rest" that could fail or be probed;
        \*  the block is still expanded, rewritten and exported)
        laterFails == ~e.bare /\ ~want.err /\ \E j \in 1..Len(Block(e)) : Fails(e.c.mode, want.env, Block(e)[j].v)
    IN
    /\ ~e.panic
    /\ IF want.err \/ laterFails THEN e.err                          \* a failed expansion is reported
       ELSE /\ ~e.err
            /\ KV(e.block) = want.block                               \* rewritten in place, definition order
            /\ e.wf                                                   \* ... and still a mapping (Len and Get agree with what Range shows)
            /\ (e.bare \/ e.probe = ProbeStr(e.c.mode, want.env, e.c.probe) \o "|" \o Repeats(e.c.mode, want.env, Block(e), 1))   \* what the rest of the pipeline saw
            /\ (e.bare \/ (e.probetop[1] = e.probe /\ e.probetop[2] = e.probe))     \* ... top-level settings included, wherever they are written
            /\ \A j \in 1..Len(e.lookups) :                           \* what was exported to / kept in the caller env
                  /\ e.lookups[j][2] = Has(e.c.mode, want.env, e.lookups[j][1])
                  /\ e.lookups[j][3] = Val(e.c.mode, want.env, e.lookups[j][1])

Init == l = 1 /\ bad = {} /\ mach = {}
Next == /\ l <= N
        /\ l' = l + 1
        /\ mach' = IF WellFormed(Trace[l]) THEN mach ELSE mach \cup {l}
        /\ bad' = IF ~WellFormed(Trace[l]) \/ EventOK(Trace[l]) THEN bad ELSE bad \cup {l}
Spec == Init /\ [][Next]_vars
Report == (l = N + 1) => PrintT("VERIF_DONE " \o ToJson([n |-> N, bad |-> bad, mach |-> mach]))
=============================================================================
