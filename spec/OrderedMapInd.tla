--------------------------- MODULE OrderedMapInd ---------------------------
(***************************************************************************)
(* Inductive representation invariant of ordered/map.go (C05), checked by  *)
(* Apalache on ARBITRARY (not only reachable) consistent states:           *)
(*   IndInit => IndInv   and   IndInv /\ Next => IndInv'                   *)
(* so the invariant holds after operation histories of ANY length, for     *)
(* maps of up to MaxSlots slots over the key alphabet.  The abstraction    *)
(* Abs(items) (live pairs in slot order) then refines the list-of-pairs    *)
(* model: each action's effect on Abs is the one OrderedMap.tla states.    *)
(***************************************************************************)
EXTENDS Integers, Sequences, FiniteSets, Apalache

CONSTANTS
    \* @type: Set(Str);
    Keys,
    \* @type: Set(Str);
    Vals,
    \* @type: Int;
    MaxSlots,
    \* @type: Bool;
    FixReplaceSelf      \* FALSE: Replace(k, k, v) on an absent k appends a slot but does not index it (the pinned commit, F02)

VARIABLES
    \* @type: Seq({k: Str, v: Str, d: Bool});
    items,
    \* @type: Str -> Int;
    index,
    \* @type: {op: Str, a: Str, b: Str, v: Str};
    last                \* the operation just performed (history variable for the action invariant)

\* @type: (Str, Str, Bool) => {k: Str, v: Str, d: Bool};
Slot(k, v, d) == [k |-> k, v |-> v, d |-> d]

TypeOK ==
    /\ Len(items) <= MaxSlots
    /\ \A i \in DOMAIN items : items[i].k \in Keys /\ items[i].v \in Vals
    /\ DOMAIN index \subseteq Keys
    /\ \A k \in DOMAIN index : index[k] \in 1..MaxSlots

\* the representation invariant of the Go type
Consistent ==
    /\ \A k \in DOMAIN index : index[k] \in DOMAIN items /\ items[index[k]].k = k /\ ~items[index[k]].d
    /\ \A i \in DOMAIN items : ~items[i].d => (items[i].k \in DOMAIN index /\ index[items[i].k] = i)

IndInv == TypeOK /\ Consistent

IndInit ==
    /\ items = Gen(6)
    /\ index = Gen(3)
    /\ last = Gen(1)
    /\ IndInv

\* ---------------- the operations, as in ordered/map.go (repaired tree) ----------------
Set(k, v) ==
    /\ last' = [op |-> "set", a |-> k, b |-> k, v |-> v]
    /\ IF k \in DOMAIN index
       THEN /\ items' = [items EXCEPT ![index[k]] = Slot(k, v, FALSE)]
            /\ index' = index
       ELSE /\ Len(items) < MaxSlots
            /\ items' = Append(items, Slot(k, v, FALSE))
            /\ index' = [x \in DOMAIN index \union {k} |-> IF x = k THEN Len(items) + 1 ELSE index[x]]

Replace(o, n, v) ==
    LET exists == o \in DOMAIN index
        idx == IF exists THEN index[o] ELSE Len(items) + 1
        items1 == IF exists THEN items ELSE Append(items, Slot(n, v, FALSE))
        items2 == IF o /= n /\ n \in DOMAIN index THEN [items1 EXCEPT ![index[n]] = Slot(items1[index[n]].k, items1[index[n]].v, TRUE)] ELSE items1
    IN /\ last' = [op |-> "replace", a |-> o, b |-> n, v |-> v]
       /\ (exists \/ Len(items) < MaxSlots)
       /\ items' = [items2 EXCEPT ![idx] = Slot(n, v, FALSE)]
       /\ index' = IF o = n /\ ~exists /\ ~FixReplaceSelf THEN index
                   ELSE [x \in (DOMAIN index \ {o}) \union {n} |-> IF x = n THEN idx ELSE index[x]]

\* number of live slots at positions <= i
\* @type: (Seq({k: Str, v: Str, d: Bool}), Int) => Int;
LiveUpTo(its, i) == Cardinality({j \in DOMAIN its : j <= i /\ ~its[j].d})

\* @type: (Seq({k: Str, v: Str, d: Bool}), {k: Str, v: Str, d: Bool}) => Seq({k: Str, v: Str, d: Bool});
KeepLive(acc, s) == IF s.d THEN acc ELSE Append(acc, s)
\* @type: Seq({k: Str, v: Str, d: Bool}) => Seq({k: Str, v: Str, d: Bool});
Compact(its) == ApaFoldSeqLeft(KeepLive, <<>>, its)

Delete(k) ==
    /\ last' = [op |-> "delete", a |-> k, b |-> k, v |-> ""]
    /\ IF k \notin DOMAIN index THEN UNCHANGED <<items, index>>
       ELSE LET items1 == [items EXCEPT ![index[k]] = Slot(items[index[k]].k, items[index[k]].v, TRUE)]
             dom1 == DOMAIN index \ {k}
         IN IF Len(items1) >= 2 * Cardinality(dom1)
            THEN \* compaction: live slots move left, keeping their order
                 /\ items' = Compact(items1)
                 /\ index' = [x \in dom1 |-> LiveUpTo(items1, index[x])]
            ELSE /\ items' = items1
                 /\ index' = [x \in dom1 |-> index[x]]

Next ==
    \/ \E k \in Keys, v \in Vals : Set(k, v)
    \/ \E o \in Keys, n \in Keys, v \in Vals : Replace(o, n, v)
    \/ \E k \in Keys : Delete(k)

Init == items = <<>> /\ index = [x \in {} |-> 0] /\ last = [op |-> "init", a |-> "", b |-> "", v |-> ""]

(* ---------------- refinement of the list-of-pairs model, as an ACTION invariant ---------------- *)
\* what a lookup returns, before and after
\* @type: (Seq({k: Str, v: Str, d: Bool}), Str -> Int, Str) => Str;
GetOf(its, idx, x) == IF x \in DOMAIN idx THEN its[idx[x]].v ELSE "<none>"
\* x stands before y in iteration order
\* @type: (Str -> Int, Str, Str) => Bool;
Before(idx, x, y) == idx[x] < idx[y]
ActionOK ==
    LET a == last'.a
        b == last'.b
        v == last'.v
        had(x) == x \in DOMAIN index
        has(x) == x \in DOMAIN index'
    IN
    CASE last'.op = "set" ->
           /\ DOMAIN index' = DOMAIN index \union {a}
           /\ GetOf(items', index', a) = v
           /\ \A x \in Keys \ {a} : GetOf(items', index', x) = GetOf(items, index, x)
           /\ \A x, y \in DOMAIN index : Before(index', x, y) <=> Before(index, x, y)          \* nobody moves
           /\ (~had(a) => \A y \in DOMAIN index : Before(index', y, a))                      \* a new key goes last
      [] last'.op = "delete" ->
           /\ DOMAIN index' = DOMAIN index \ {a}
           /\ \A x \in Keys \ {a} : GetOf(items', index', x) = GetOf(items, index, x)
           /\ \A x, y \in DOMAIN index' : Before(index', x, y) <=> Before(index, x, y)
      [] last'.op = "replace" ->
           /\ DOMAIN index' = (DOMAIN index \ {a}) \union {b}                                \* old key gone, new key present
           /\ GetOf(items', index', b) = v
           /\ \A x \in Keys \ {a, b} : GetOf(items', index', x) = GetOf(items, index, x)
           /\ \A x, y \in DOMAIN index \ {a, b} : Before(index', x, y) <=> Before(index, x, y)
           /\ (had(a) => \A y \in DOMAIN index \ {a, b} : Before(index', b, y) <=> Before(index, a, y))   \* the new key stands where the old one stood
           /\ (~had(a) => \A y \in DOMAIN index \ {a, b} : Before(index', y, b))            \* absent old key: appended at the end
      [] OTHER -> TRUE
=============================================================================
