SPECIFICATION Spec
CONSTANTS
  EnvNames = {"A", "B", "C", "Z", "A2", "UNRELATED", "command", "plugins", "repository_url"}
INVARIANT Report
CHECK_DEADLOCK FALSE
