SPECIFICATION Spec
CONSTANTS
  EnvNames = {"A", "B", "C", "Z", "A2", "UNRELATED"}
INVARIANT Report
CHECK_DEADLOCK FALSE
