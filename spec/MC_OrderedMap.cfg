SPECIFICATION Spec
CONSTANTS
  Keys = {"a", "b", "c"}
  Vals = {"1", "2"}
  MaxOps = 4
  DoExport = FALSE
  FixReplaceSelf = TRUE
  FixEqualBounds = TRUE
VIEW view
INVARIANTS InvConsistent InvRefines InvObservers InvEqualReflexive InvRangeRename Export
CHECK_DEADLOCK FALSE
