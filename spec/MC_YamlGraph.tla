----------------------------- MODULE MC_YamlGraph -----------------------------
(***************************************************************************)
(* C07 bounded model: every graph over two anchored mappings A and B and a *)
(* root R whose entries are explicit keys (scalar, alias, sequence of       *)
(* aliases) or `<<` merges (alias, sequences of aliases in both orders).   *)
(* Aliases may point anywhere, so self- and mutual cycles through values,  *)
(* sequences and merges all occur.  TLC checks, for every graph, that the  *)
(* implementation-shaped decoder (seen / merged / skipKeys stack) gives    *)
(* exactly the rule-shaped result, errors exactly on value cycles, and -   *)
(* being evaluated at all - terminates.                                    *)
(***************************************************************************)
EXTENDS YamlGraph, TLC, Json
CONSTANTS MaxA, MaxB, MaxR, MaxC, DoExport
VARIABLES g

Al(n) == [t |-> "a", n |-> n]
Def(n) == [t |-> "n", n |-> n]
Q(e) == [t |-> "q", e |-> e]
SC == [t |-> "s", s |-> "?"]                          \* stamped with owner and position below
ExplVals == {SC, Al("A"), Al("B"), Q(<<Al("A"), Al("B")>>)}
MergeVals == {Al("A"), Al("B"), Q(<<Al("A"), Al("B")>>), Q(<<Al("B"), Al("A")>>)}
EntriesOver(K) == {[m |-> FALSE, k |-> k, v |-> v] : k \in K, v \in ExplVals} \cup {[m |-> TRUE, k |-> "<<", v |-> v] : v \in MergeVals}
SeqsUpTo(S, n) == UNION {[1..k -> S] : k \in 0..n}
Stamp(owner, es) == [i \in 1..Len(es) |-> IF es[i].v = SC THEN [es[i] EXCEPT !.v = [t |-> "s", s |-> owner \o ToString(i)]] ELSE es[i]]

\* duplicate explicit keys within one mapping are not valid YAML and outside the property
NoDup(es) == \A i, j \in 1..Len(es) : (i # j /\ ~es[i].m /\ ~es[j].m) => es[i].k # es[j].k
\* C: a mapping defined INLINE inside A and never aliased - so it carries no anchor in the rendering - which may
\* merge or alias A or B: cycles closed through a node that is not an alias target
EntriesA == EntriesOver({"x", "y"}) \cup {[m |-> FALSE, k |-> k, v |-> Def("C")] : k \in {"x", "y"}}
CEntries == {[m |-> TRUE, k |-> "<<", v |-> Al("A")], [m |-> TRUE, k |-> "<<", v |-> Al("B")],
             [m |-> FALSE, k |-> "x", v |-> SC], [m |-> FALSE, k |-> "y", v |-> Al("A")]}
NumC(a) == Cardinality({i \in 1..Len(a) : a[i].v = Def("C")})
\* S: an anchored SEQUENCE, defined at a merge inside A (`<<: &S [...]`), used again by alias in B and R (as a merge
\* value or as a plain value), and possibly containing an alias to itself
SD == [t |-> "sd"]
SA == [t |-> "sa"]
SPool == { <<Al("A")>>, <<Al("B"), SA>>, <<SA, Al("B")>>, <<Q(<<SA>>), Al("B")>> }
EntriesAS == EntriesA \cup {[m |-> TRUE, k |-> "<<", v |-> SD]}
EntriesBR(K) == EntriesOver(K) \cup {[m |-> TRUE, k |-> "<<", v |-> SA]} \cup {[m |-> FALSE, k |-> k, v |-> SA] : k \in K}
Num(es, val) == Cardinality({i \in 1..Len(es) : es[i].v = val})
Init == \E a \in SeqsUpTo(EntriesAS, MaxA) :
          \E b \in SeqsUpTo(EntriesBR({"x", "y"}), MaxB) :
            \E r \in SeqsUpTo(EntriesBR({"x", "y", "z"}), MaxR) :
              \E c \in SeqsUpTo(CEntries, MaxC) :
              \E sq \in SPool \cup {<<>>} :
              NumC(a) <= 1 /\ (NumC(a) = 0 => c = <<>>)
              /\ Num(a, SD) <= 1 /\ (Num(a, SD) = 0 <=> sq = <<>>)                  \* S exists exactly when it is defined
              /\ (Num(a, SD) = 0 => Num(b, SA) + Num(r, SA) = 0)                   \* no alias without its anchor
              /\ NoDup(a) /\ NoDup(b) /\ NoDup(r) /\ NoDup(c) /\ g = [A |-> Stamp("A", a), B |-> Stamp("B", b), C |-> Stamp("C", c), S |-> sq,
                   R |-> <<[m |-> FALSE, k |-> "defs", v |-> Q(<<Def("A"), Def("B")>>)]>> \o Stamp("R", r)]
Next == FALSE /\ g' = g
Spec == Init /\ [][Next]_g

Impl == DecNode(g, {}, "R")
Sem == SemNode(g, {}, "R")
InvErrorIffValueCycle == Impl.err = Sem.err
InvContent == ~Sem.err => EqOrd(Impl.v, Sem.v)
\* each mapping on its own, too (what decoding just that node gives)
InvEachNode == \A n \in {"A", "B"} : LET i == DecNode(g, {}, n) s == SemNode(g, {}, n) IN i.err = s.err /\ (~s.err => EqOrd(i.v, s.v))
Export == DoExport => PrintT("CASE " \o ToJson([g |-> g, cyc |-> Sem.err]))
=============================================================================
