SPECIFICATION Spec
CONSTANTS
  N = 3
  RevisitRenamedKeys = TRUE
INVARIANTS InvOnce InvSinglePass InvUntouched
PROPERTY Termination
CHECK_DEADLOCK FALSE
