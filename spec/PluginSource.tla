---------------------------- MODULE PluginSource ----------------------------
(***************************************************************************)
(* C17: canonicalisation of plugin sources (Plugin.FullSource).            *)
(* TLC cannot look inside strings, so a source is a token record           *)
(*    [prefix, segs, ref]                                                  *)
(* prefix : one of the documented leading forms ("" for none);             *)
(* segs   : 1..n path segments (names);  ref : 0..n ref segments.          *)
(* The concrete string is built by concatenation, so the specification     *)
(* computes the exact expected output string.                              *)
(*   CanonImpl - implementation-shaped: the tests of FullSource in order,  *)
(*               over a table of what net/url makes of each prefix;        *)
(*   Canon     - rule-shaped: the four documented rules.                   *)
(***************************************************************************)
EXTENDS Sequences, Integers, FiniteSets

RECURSIVE Join(_, _)
Join(s, sep) == IF Len(s) = 0 THEN "" ELSE IF Len(s) = 1 THEN s[1] ELSE s[1] \o sep \o Join(Tail(s), sep)

\* prefix -> [class, sep]; class: "path" (leading / . \), "scheme" (url with scheme or opaque part),
\* "scp" (url.Parse fails: colon in first path segment), "none"
PrefixTable ==
    [ none     |-> [text |-> "",                  class |-> "none",   sep |-> "/"],
      slash    |-> [text |-> "/",                 class |-> "path",   sep |-> "/"],
      dotslash |-> [text |-> "./",                class |-> "path",   sep |-> "/"],
      dotdot   |-> [text |-> "../",               class |-> "path",   sep |-> "/"],
      dot      |-> [text |-> ".",                 class |-> "path",   sep |-> "/"],
      bslash   |-> [text |-> "\\",                class |-> "path",   sep |-> "\\"],
      dslash   |-> [text |-> "//",                class |-> "path",   sep |-> "/"],      \* a path with a doubled leading slash (net/url reads an authority: the SOURCE still starts with "/")
      unc      |-> [text |-> "\\\\",              class |-> "path",   sep |-> "\\"],
      drive    |-> [text |-> "C:\\",              class |-> "scheme", sep |-> "\\"],
      https    |-> [text |-> "https://example.com/", class |-> "scheme", sep |-> "/"],
      ssh      |-> [text |-> "ssh://git@example.com/", class |-> "scheme", sep |-> "/"],
      file     |-> [text |-> "file:///",          class |-> "scheme", sep |-> "/"],
      scp      |-> [text |-> "git@example.com:",  class |-> "scp",    sep |-> "/"],
      \* the same forms in spellings that a hand-written classifier, or a re-serialising one, gets wrong
      httpsU   |-> [text |-> "HTTPS://Example.com/", class |-> "scheme", sep |-> "/"],   \* as written: the scheme is NOT lower-cased
      sshU     |-> [text |-> "Ssh://git@example.com/", class |-> "scheme", sep |-> "/"],
      drivefwd |-> [text |-> "C:/",               class |-> "scheme", sep |-> "/"],
      scpip    |-> [text |-> "10.0.0.5:",         class |-> "scp",    sep |-> "/"],      \* scp-style without user@, host starts with a digit
      scphy    |-> [text |-> "-host:",            class |-> "scp",    sep |-> "/"],
      hostcol  |-> [text |-> "git.example.org:",  class |-> "scheme", sep |-> "/"] ]     \* reads as scheme + opaque part
Prefixes == DOMAIN PrefixTable

RefPart(s) == IF Len(s.ref) = 0 THEN "" ELSE "#" \o Join(s.ref, "/")
\* trail: the path part ends in one more separator (a directory-style path, a URL with a trailing slash, host/org/name/)
Spell(s) == PrefixTable[s.prefix].text \o Join(s.segs, PrefixTable[s.prefix].sep) \o (IF s.trail THEN PrefixTable[s.prefix].sep ELSE "") \o RefPart(s)

Suffix == "-buildkite-plugin"

(* ---------------- rule-shaped: the documented rules ---------------- *)
Canon(s) ==
    IF s.prefix # "none" THEN Spell(s)                                   \* paths, URLs with a scheme, scp-style: as written
    ELSE IF Len(s.segs) = 1 THEN "github.com/buildkite-plugins/" \o s.segs[1] \o Suffix \o RefPart(s)
    ELSE IF Len(s.segs) = 2 THEN "github.com/" \o s.segs[1] \o "/" \o s.segs[2] \o Suffix \o RefPart(s)
    ELSE Spell(s)                                                        \* three or more segments: as written

\* the token form of a canonical output (for idempotence on the model)
CanonTokens(s) ==
    IF s.prefix # "none" \/ Len(s.segs) >= 3 THEN s
    ELSE IF Len(s.segs) = 1 THEN [prefix |-> "none", segs |-> <<"github.com", "buildkite-plugins", s.segs[1] \o Suffix>>, ref |-> s.ref, trail |-> FALSE]
    ELSE [prefix |-> "none", segs |-> <<"github.com", s.segs[1], s.segs[2] \o Suffix>>, ref |-> s.ref, trail |-> FALSE]

(* ---------------- implementation-shaped: FullSource step by step ---------------- *)
CanonImpl(s) ==
    LET pc == PrefixTable[s.prefix].class IN
    IF pc = "path" THEN Spell(s)                          \* HasPrefix "/", ".", "\"
    ELSE IF pc = "scp" THEN Spell(s)                      \* url.Parse error
    ELSE IF pc = "scheme" THEN Spell(s)                   \* u.Scheme != "" || u.Opaque != ""
    ELSE LET last(n) == n \o Suffix \o RefPart(s)         \* lastSegment(n, fragment)
         IN CASE Len(s.segs) = 1 -> Join(<<"github.com", "buildkite-plugins", last(s.segs[1])>>, "/")
              [] Len(s.segs) = 2 -> Join(<<"github.com", s.segs[1], last(s.segs[2])>>, "/")
              [] OTHER -> Spell(s)
=============================================================================
