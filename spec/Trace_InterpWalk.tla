--------------------------- MODULE Trace_InterpWalk ---------------------------
(* C04 trace validation.  One event per document: the marshalled pipeline      *)
(* before and after the real Pipeline.Interpolate (as AV trees), the token     *)
(* form of every generated string, the environment, how often the library      *)
(* read each variable from the caller env, and whether R repeated runs         *)
(* produced byte-identical output.                                             *)
EXTENDS InterpWalk, Json, IOUtils
Trace == ndJsonDeserialize(IOEnv.VERIF_TRACE)
N == Len(Trace)
VARIABLES l, bad, mach
vars == <<l, bad, mach>>

Dict(e) == [s \in {e.strings[i][1] : i \in 1..Len(e.strings)} |->
              e.strings[CHOOSE i \in 1..Len(e.strings) : e.strings[i][1] = s][2]]
Env(e) == [x \in DOMAIN e.env |-> e.env[x]]
Cnt(e, v) == IF v \in DOMAIN e.getcounts THEN e.getcounts[v] ELSE 0

IsNilEnv(e) == "kind" \in DOMAIN e /\ e.kind = "nilenv"
WellFormed(e) == IsNilEnv(e) \/ \A i \in 1..Len(e.strings) : e.strings[i][1] = Spell(e.strings[i][2])

\* two pipelines interpolated one after the other with NO caller environment: each starts from an empty one
NilEnvOK(e) == ~e.panic /\ ~e.err /\ e.a = "a " \o e.val /\ e.b = "b unset |"
EventOK(e) ==
    IF IsNilEnv(e) THEN NilEnvOK(e) ELSE
    LET D == Dict(e)
        env == Env(e)
        occ == Strs(e.before, "pipeline")
        visited == {s \in DOMAIN D : Occurrences(occ, s) > 0}
        fails == \E s \in visited : Fails("exact", env, D[s])
        refd == UNION {{D[s][i].v : i \in {j \in 1..Len(D[s]) : D[s][j].t \in {"ref", "req", "dflt"}}} : s \in DOMAIN D}
    IN /\ ~e.panic
       /\ IF fails THEN e.err                                         \* a failed expansion is reported
          ELSE /\ ~e.err
               /\ EqUnord(e.after, XAV(D, "exact", env, e.before, "pipeline"))   \* every string expanded once, nothing else changed
               /\ e.same                                               \* repeated runs: identical output
               /\ \A s \in DOMAIN D :
                     \A i \in 1..Len(D[s]) :
                        CASE D[s][i].t \in {"ref", "req"} -> Cnt(e, D[s][i].v) = Occurrences(occ, s)   \* read exactly once per occurrence
                          [] D[s][i].t = "esc" -> Cnt(e, D[s][i].v) = 0 \/ D[s][i].v \in refd                 \* never expanded a second time (a variable that is ALSO referenced elsewhere is held to that count)
                          [] OTHER -> TRUE

Init == l = 1 /\ bad = {} /\ mach = {}
Next == /\ l <= N
        /\ l' = l + 1
        /\ mach' = IF WellFormed(Trace[l]) THEN mach ELSE mach \cup {l}
        /\ bad' = IF ~WellFormed(Trace[l]) \/ EventOK(Trace[l]) THEN bad ELSE bad \cup {l}
Spec == Init /\ [][Next]_vars
Report == (l = N + 1) => PrintT("VERIF_DONE " \o ToJson([n |-> N, bad |-> bad, mach |-> mach]))
=============================================================================
