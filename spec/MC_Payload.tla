------------------------------ MODULE MC_Payload ------------------------------
(***************************************************************************)
(* C14 bounded model: pairs of (step, pipeline env, repository URL,        *)
(* algorithm).  The payload built the way Sign builds it (field values,    *)
(* env:: namespacing with shadowing, canonical spellings) is equal for two *)
(* inputs exactly when their signed content is the same - re-orderings and *)
(* re-spellings collide, boundary shifts and single-point variants do not. *)
(***************************************************************************)
EXTENDS Signing, Json
CONSTANTS DoExport
VARIABLES c
E(nil, m) == [nil |-> nil, m |-> m]
PL(nil, l) == [nil |-> nil, l |-> l]
S(cmd, env, pl, mx, repo, penv, alg) == [c |-> [command |-> cmd, env |-> env, plugins |-> pl, matrix |-> mx, repo |-> repo], penv |-> penv, alg |-> alg]
Base == S("echo hello", E(TRUE, <<>>), PL(TRUE, <<>>), "nil", "https://example.com/r.git", <<>>, "EdDSA")
With(b, f, v) == [b EXCEPT !.c[f] = v]
Pool ==
  { Base,
    \* re-spellings (must collide with a neighbour)
    With(Base, "env", E(FALSE, <<>>)), With(Base, "plugins", PL(FALSE, <<>>)), With(Base, "matrix", "empty"), With(Base, "matrix", "empty_alloc"),
    With(Base, "plugins", PL(FALSE, <<[src |-> "short", cfg |-> "null"]>>)), With(Base, "plugins", PL(FALSE, <<[src |-> "canon", cfg |-> "empty"]>>)),
    With(Base, "plugins", PL(FALSE, <<[src |-> "canon", cfg |-> "emptylist"]>>)),
    \* single-point variants
    With(Base, "command", "echo hellp"), With(Base, "repo", "https://example.com/s.git"), [Base EXCEPT !.alg = "ES512"],
    With(Base, "matrix", "list_ab"), With(Base, "matrix", "list_ac"), With(Base, "matrix", "adj_base"), With(Base, "matrix", "adj_skip"),
    With(Base, "plugins", PL(FALSE, <<[src |-> "short", cfg |-> "kv"]>>)), With(Base, "plugins", PL(FALSE, <<[src |-> "short", cfg |-> "kw"]>>)),
    With(Base, "plugins", PL(FALSE, <<[src |-> "short", cfg |-> "num1"]>>)), With(Base, "plugins", PL(FALSE, <<[src |-> "short", cfg |-> "str1"]>>)),
    With(Base, "plugins", PL(FALSE, <<[src |-> "short", cfg |-> "bfalse"]>>)), With(Base, "plugins", PL(FALSE, <<[src |-> "short", cfg |-> "zero"]>>)),
    With(Base, "plugins", PL(FALSE, <<[src |-> "short", cfg |-> "emptystr"]>>)),
    \* a ref with a slash in it: the three spellings of the source are one plugin, another such ref is another
    With(Base, "plugins", PL(FALSE, <<[src |-> "short_sref", cfg |-> "kv"]>>)), With(Base, "plugins", PL(FALSE, <<[src |-> "org_sref", cfg |-> "kv"]>>)),
    With(Base, "plugins", PL(FALSE, <<[src |-> "canon_sref", cfg |-> "kv"]>>)), With(Base, "plugins", PL(FALSE, <<[src |-> "short_sref2", cfg |-> "kv"]>>)),
    With(Base, "plugins", PL(FALSE, <<[src |-> "short", cfg |-> "null"], [src |-> "other", cfg |-> "null"]>>)),
    With(Base, "plugins", PL(FALSE, <<[src |-> "other", cfg |-> "null"], [src |-> "short", cfg |-> "null"]>>)),
    \* boundary shifts: text moved between adjacent fields
    With(With(Base, "command", "ab"), "repo", "c"), With(With(Base, "command", "a"), "repo", "bc"),
    With(Base, "env", E(FALSE, ("AB" :> "C"))), With(Base, "env", E(FALSE, ("A" :> "BC"))),
    With(Base, "env", E(FALSE, ("A" :> "B=C"))), With(Base, "env", E(FALSE, ("A=B" :> "C"))),
    With(Base, "env", E(FALSE, ("A" :> "1") @@ ("B" :> "2"))), With(Base, "env", E(FALSE, ("A" :> "1B") @@ ("" :> "2"))),
    With(Base, "plugins", PL(FALSE, <<[src |-> "./ab", cfg |-> "lit:c"]>>)), With(Base, "plugins", PL(FALSE, <<[src |-> "./a", cfg |-> "lit:bc"]>>)),
    With(Base, "plugins", PL(FALSE, <<[src |-> "./a", cfg |-> "null"], [src |-> "./b", cfg |-> "null"]>>)), With(Base, "plugins", PL(FALSE, <<[src |-> "./a./b", cfg |-> "null"]>>)),
    With(Base, "plugins", PL(FALSE, <<[src |-> "my-org/deploy#v1", cfg |-> "null"]>>)), With(Base, "plugins", PL(FALSE, <<[src |-> "my-org/deploy-buildkite-plugin#v1", cfg |-> "null"]>>)),
    \* step env entry versus pipeline env entry of the same name
    With(Base, "env", E(FALSE, ("A" :> "1"))), [Base EXCEPT !.penv = ("A" :> "1")],
    [With(Base, "env", E(FALSE, ("A" :> "1"))) EXCEPT !.penv = ("A" :> "pa")],          \* shadowed: same as the step-env-only one
    [With(Base, "env", E(FALSE, ("A" :> "1"))) EXCEPT !.penv = ("A" :> "1")],           \* shadowed by the SAME value: still shadowed
    [Base EXCEPT !.penv = ("A" :> "1") @@ ("B" :> "2")], [Base EXCEPT !.penv = ("A" :> "12") @@ ("B" :> "")], [Base EXCEPT !.penv = ("B" :> "2")],
    \* names that differ only in case are different variables: a step variable A does not shadow the pipeline's a
    [With(Base, "env", E(FALSE, ("A" :> "1"))) EXCEPT !.penv = ("a" :> "p1")], [With(Base, "env", E(FALSE, ("A" :> "1"))) EXCEPT !.penv = ("a" :> "p2")],
    \* a matrix whose leftover fields hold a key named like a real field (`setup`): the real field is what is signed
    With(Base, "matrix", "shadow_a"), With(Base, "matrix", "shadow_b"),
    \* the repository URL is signed as written: no spelling of it is "the same" as another
    With(Base, "repo", "https://example.com/r.git/"), With(Base, "repo", "https://example.com/r"), With(Base, "repo", "https://example.com/r/"),
    \* the anonymous dimension next to a named one: both are signed
    With(Base, "matrix", "anon_plus_a"), With(Base, "matrix", "anon_plus_b"), With(Base, "matrix", "anon_adj_a"), With(Base, "matrix", "anon_adj_b"),
    \* a PIPELINE variable that is itself named env::A is a different variable from A
    [Base EXCEPT !.penv = ("env::A" :> "1")], [Base EXCEPT !.penv = ("env::A" :> "2") @@ ("A" :> "1")], [Base EXCEPT !.penv = ("env::A" :> "1") @@ ("A" :> "2")],
    \* env::A as a signed field versus a step variable literally named env::A / :A
    With(Base, "env", E(FALSE, ("env::A" :> "1"))), With(Base, "env", E(FALSE, (":A" :> "1"))),
    \* nil versus empty containers INSIDE a matrix with named dimensions (the list shortcut of a simple matrix does not apply)
    With(Base, "matrix", "setup_os"), With(Base, "matrix", "setup_os_eadj"), With(Base, "matrix", "setup_os_erem"), With(Base, "matrix", "adj_base_erem"),
    \* a matrix without dimensions whose one adjustment only says skip: true / false / a reason / no matrix at all are four contents
    With(Base, "matrix", "skiponly_t"), With(Base, "matrix", "skiponly_f"), With(Base, "matrix", "skiponly_s"),
    \* ... and in such a matrix a setup that was never allocated and an allocated one without dimensions (`setup: {}`) are the same content
    With(Base, "matrix", "skiponly_t_es"),
    \* one shadowed pipeline variable among many that are not: all the others are signed, on every run
    [With(Base, "env", E(FALSE, ("A" :> "1"))) EXCEPT !.penv = ("A" :> "pa") @@ ("B" :> "pb") @@ ("C" :> "pc") @@ ("D" :> "pd") @@ ("E" :> "pe") @@ ("F" :> "pf") @@ ("G" :> "pg")],
    [With(Base, "env", E(FALSE, ("A" :> "1"))) EXCEPT !.penv = ("A" :> "pa") @@ ("B" :> "pb") @@ ("C" :> "pc") @@ ("D" :> "pd") @@ ("E" :> "pe") @@ ("F" :> "pf") @@ ("G" :> "other")],
    \* a pipeline variable whose value is EMPTY is a signed variable like any other: present-and-empty, absent, and another name
    [Base EXCEPT !.penv = ("B" :> "")], [Base EXCEPT !.penv = ("C" :> "")], [Base EXCEPT !.penv = ("B" :> "") @@ ("C" :> "")],
    \* a number and the string of its digits are different values, however large
    With(Base, "plugins", PL(FALSE, <<[src |-> "short", cfg |-> "big_int"]>>)), With(Base, "plugins", PL(FALSE, <<[src |-> "short", cfg |-> "big_str"]>>)),
    \* step variables with credential-like names are ordinary variables
    With(Base, "env", E(FALSE, ("API_TOKEN" :> "t1"))), With(Base, "env", E(FALSE, ("API_TOKEN" :> "t2"))), With(Base, "env", E(FALSE, ("DB_PASSWORD" :> "t1"))),
    \* an empty mapping, an empty list and null nested inside a plugin config are different configs
    With(Base, "plugins", PL(FALSE, <<[src |-> "short", cfg |-> "nest_map"]>>)), With(Base, "plugins", PL(FALSE, <<[src |-> "short", cfg |-> "nest_list"]>>)),
    With(Base, "plugins", PL(FALSE, <<[src |-> "short", cfg |-> "nest_null"]>>)), With(Base, "plugins", PL(FALSE, <<[src |-> "short", cfg |-> "nest_el_map"]>>)),
    With(Base, "plugins", PL(FALSE, <<[src |-> "short", cfg |-> "nest_el_null"]>>)),
    \* the command is signed byte for byte: line-break spellings are different commands
    With(Base, "command", "echo hello\n"), With(Base, "command", "echo hello\r\n"), With(Base, "command", "echo hello\r"),
    With(Base, "command", "echo\nhello"), With(Base, "command", "echo\r\nhello"), With(Base, "command", "echo hello "), With(Base, "command", "echo  hello") }

Init == \E x \in Pool : \E y \in Pool : c = [x |-> x, y |-> y]
Next == FALSE /\ c' = c
Spec == Init /\ [][Next]_c

\* implementation-shaped: what Sign feeds to the canonicaliser
PayloadOf(s) == Payload(s.alg, Values(s.c, s.penv))
\* rule-shaped: the semantic content of the signed fields
SignedEnv(s) == [n \in DOMAIN s.penv \ DOMAIN s.c.env.m |-> s.penv[n]]
SameSignedContent(x, y) == x.alg = y.alg /\ Canon(x.c) = Canon(y.c) /\ SignedEnv(x) = SignedEnv(y)
InvInjective == (PayloadOf(c.x) = PayloadOf(c.y)) <=> SameSignedContent(c.x, c.y)
Export == DoExport => PrintT("CASE " \o ToJson([x |-> c.x, y |-> c.y, same |-> SameSignedContent(c.x, c.y)]))
=============================================================================
