----------------------------- MODULE KeyPolicy -----------------------------
(***************************************************************************)
(* C18: which keys may sign / verify job signatures.                       *)
(* A key is [kty, alg, valid, private]; alg is an algorithm name,          *)
(* "<none>" (no algorithm declared) or a name no registry knows.           *)
(*   ValidateImpl - implementation-shaped: jwkutil.Validate's checks in    *)
(*                  the order the code makes them;                         *)
(*   Accept       - rule-shaped: structurally valid, declares an           *)
(*                  algorithm, and (key type, algorithm) is approved.      *)
(* LoadKey over key sets, and symbolic sign/verify (a signature verifies   *)
(* exactly under the public half of the key pair that made it).            *)
(***************************************************************************)
EXTENDS Sequences, Integers, FiniteSets

CONSTANTS SigAlgs,      \* every signature algorithm name the JOSE library registers
          EncAlgs       \* every key-encryption algorithm name it registers

KeyTypes == {"RSA", "EC", "OKP", "oct"}
NoAlg == "<none>"
Bogus == "BOGUS-512"

Approved == {<<"RSA", "PS512">>, <<"EC", "ES512">>, <<"OKP", "EdDSA">>}

(* ---------------- rule-shaped ---------------- *)
Accept(k) == k.valid /\ k.alg # NoAlg /\ <<k.kty, k.alg>> \in Approved

(* ---------------- implementation-shaped ---------------- *)
ValidSigningAlgorithms == {"PS512", "ES512", "EdDSA"}
ValidAlgsForKeyType == [RSA |-> {"PS512"}, EC |-> {"ES512"}, OKP |-> {"EdDSA"}]
ValidateImpl(k) ==
    IF ~k.valid THEN "invalid_key"                                   \* key.Validate()
    ELSE IF k.alg = NoAlg THEN "missing_alg"                         \* key.Get(AlgorithmKey)
    ELSE IF k.alg \notin SigAlgs THEN "not_a_signature_alg"          \* key.Algorithm().(jwa.SignatureAlgorithm)
    ELSE IF k.alg \notin ValidSigningAlgorithms THEN "unsupported_alg"
    ELSE IF k.kty \notin {"RSA", "EC", "oct", "OKP"} THEN "unsupported_kty"
    ELSE IF k.kty \notin DOMAIN ValidAlgsForKeyType \/ k.alg \notin ValidAlgsForKeyType[k.kty] THEN "alg_kty_mismatch"
    ELSE "ok"

(* ---------------- LoadKey ---------------- *)
\* set: sequence of keys with a kid field ("" = no kid); req: requested id ("" = none)
\* result: [ok, idx] - idx is the position of the returned key
Fail == [ok |-> FALSE, idx |-> 0]
LoadKeyImpl(set, req) ==
    LET pick == IF req = ""
                THEN (IF Len(set) # 1 THEN 0 ELSE 1)
                ELSE LET hits == {i \in 1..Len(set) : set[i].kid = req}
                     IN IF hits = {} THEN 0 ELSE CHOOSE i \in hits : \A j \in hits : i <= j
    IN IF pick = 0 THEN Fail
       ELSE IF ValidateImpl(set[pick]) # "ok" THEN Fail
       ELSE [ok |-> TRUE, idx |-> pick]

\* rule-shaped (key ids unique among keys that have one)
LoadKeyRule(set, req) ==
    IF req = "" /\ Len(set) # 1 THEN Fail                              \* ambiguous (or empty)
    ELSE IF req # "" /\ ~\E i \in 1..Len(set) : set[i].kid = req THEN Fail   \* absent
    ELSE LET i == IF req = "" THEN 1 ELSE CHOOSE j \in 1..Len(set) : set[j].kid = req
         IN IF Accept(set[i]) THEN [ok |-> TRUE, idx |-> i] ELSE Fail  \* invalid

(* ---------------- symbolic signing ---------------- *)
VerifyOK(signerPair, verifierPair) == signerPair = verifierPair
=============================================================================
