------------------------------- MODULE Signing -------------------------------
(***************************************************************************)
(* Step signing (C01, C14, C06), with SYMBOLIC cryptography.               *)
(*                                                                         *)
(* Content of a command step as far as signing is concerned:               *)
(*   [command, env, plugins, matrix, repo]                                 *)
(*   env     : [nil |-> BOOLEAN, m |-> function name -> value]             *)
(*   plugins : [nil |-> BOOLEAN, l |-> sequence of [src, cfg]]             *)
(*   matrix  : a shape name (the driver holds the real Matrix per name)    *)
(* src and cfg are names of spellings/shapes with the equivalences the     *)
(* property states (short = canonical source; empty config = null; nil =   *)
(* empty env/plugins/matrix).  command, repo, env names/values are plain   *)
(* strings, so boundary-shift families can be written down.                *)
(*                                                                         *)
(* A signature record is [alg, fields, value]; value is the symbolic term  *)
(*   [pair, keyalg, payload]   (a JWS made with private key `pair`)        *)
(* and verifies under a public key exactly when pair and algorithm match   *)
(* and the recomputed payload is the same.  The payload is STRUCTURED:     *)
(* [alg, values restricted to the signed fields] - so injectivity holds by *)
(* construction in the model and is what C14 checks of the real bytes.     *)
(***************************************************************************)
EXTENDS Sequences, Integers, FiniteSets, TLC

CONSTANT EnvNames        \* variable names that may occur in env:: fields

Mandatory == {"command", "env", "plugins", "matrix", "repository_url"}
EnvField(n) == "env::" \o n

(* ---------------- canonical content ---------------- *)
SrcCanon == [short |-> "docker", canon |-> "docker", suffixed |-> "docker-suffixed", other |-> "local", other2 |-> "local2",
             short_sref |-> "docker_sref", org_sref |-> "docker_sref", canon_sref |-> "docker_sref", short_sref2 |-> "docker_sref2"]   \* refs holding a slash
CfgCanon == [null |-> "NONE", empty |-> "NONE", emptylist |-> "NONE", kv |-> "kv", kw |-> "kw", deep_v |-> "deep_v", deep_w |-> "deep_w",
             num1 |-> "num1", str1 |-> "str1", bfalse |-> "bfalse", zero |-> "zero", emptystr |-> "emptystr",
             \* an empty mapping, an empty list and null NESTED inside a config are three different values (only a config that is
             \* empty as a whole has the one canonical spelling, null)
             big_int |-> "big_int", big_str |-> "big_str",      \* an integer of 19 digits and the same digits as a string
             nest_map |-> "nest_map", nest_list |-> "nest_list", nest_null |-> "nest_null", nest_el_map |-> "nest_el_map", nest_el_null |-> "nest_el_null"]
MatrixCanon == [nil |-> "NONE", empty |-> "NONE", empty_alloc |-> "NONE", list_ab |-> "list_ab", list_ac |-> "list_ac", setup_os |-> "setup_os", setup_os2 |-> "setup_os2",
                dim_arch |-> "dim_arch", list_linux |-> "list_linux", shadow_a |-> "shadow_a", shadow_b |-> "shadow_b", adj_tomb_v |-> "adj_tomb_v", adj_tomb_w |-> "adj_tomb_w",
                dims_empty |-> "dims_empty", dims_empty2 |-> "dims_empty2", dims_mixed_a |-> "dims_mixed_a", dims_mixed_b |-> "dims_mixed_b",
                anon_plus_a |-> "anon_plus_a", anon_plus_b |-> "anon_plus_b", anon_adj_a |-> "anon_adj_a", anon_adj_b |-> "anon_adj_b", skiponly_t |-> "skiponly_t", skiponly_t_es |-> "skiponly_t", skiponly_f |-> "skiponly_f", skiponly_s |-> "skiponly_s", setup_os_eadj |-> "setup_os", setup_os_erem |-> "setup_os", adj_base_erem |-> "adj_base", adj_base |-> "adj_base", adj_with2 |-> "adj_with2", adj_skip |-> "adj_skip", adj_extra |-> "adj_extra"]

CanonEnv(e) == e.m                                         \* nil and empty are both the empty function
\* names of the tables denote shapes; anything else is a literal (a source as written / a string config)
CanonSrcOf(s) == IF s \in DOMAIN SrcCanon THEN SrcCanon[s] ELSE s
CanonCfgOf(x) == IF x \in DOMAIN CfgCanon THEN CfgCanon[x] ELSE x
CanonPlugins(p) == [i \in 1..Len(p.l) |-> [src |-> CanonSrcOf(p.l[i].src), cfg |-> CanonCfgOf(p.l[i].cfg)]]
Canon(c) == [command |-> c.command, env |-> CanonEnv(c.env), plugins |-> CanonPlugins(c.plugins),
             matrix |-> MatrixCanon[c.matrix], repository_url |-> c.repo]

(* ---------------- values, payload ---------------- *)
\* step fields plus one env:: entry per variable of the given env that the step's own env does not shadow
Values(c, env) ==
    LET base == Canon(c)
        names == DOMAIN env \ DOMAIN c.env.m
    IN [f \in Mandatory \cup {EnvField(n) : n \in names} |->
          IF f \in Mandatory THEN base[f] ELSE env[CHOOSE n \in names : EnvField(n) = f]]
Restrict(fn, S) == [x \in S |-> fn[x]]
Payload(alg, values) == [alg |-> alg, values |-> values]

SortedFields(S) == S          \* the field LIST of a fresh signature is the sorted enumeration of this set

\* Sign: what the record looks like (fields as a set; the driver checks the list is sorted and duplicate-free)
SignRecord(c, penv, key) ==
    LET v == Values(c, penv) IN
    [alg |-> key.alg, fields |-> DOMAIN v, value |-> [pair |-> key.pair, keyalg |-> key.alg, payload |-> Payload(key.alg, v), form |-> "detached"]]   \* form: a compact JWS with an EMPTY payload section

(* ---------------- Verify: implementation-shaped, step by step ---------------- *)
\* rec.fields here is a SEQUENCE (what is presented); keyset a set of [pair, alg]
\* TLC cannot look inside strings: env:: field names are those of the name pool
Known(f) == f \in Mandatory \/ f \in {EnvField(n) : n \in EnvNames}
SeqSet(s) == {s[i] : i \in 1..Len(s)}
VerifyImpl(rec, keyset, c, venv) ==
    IF Len(rec.fields) = 0 THEN "no_fields"                                                   \* 1
    ELSE IF \E i \in 1..Len(rec.fields) : ~Known(rec.fields[i]) THEN "unknown_field"          \* 2 ValuesForFields
    ELSE IF ~(Mandatory \subseteq SeqSet(rec.fields)) THEN "missing_mandatory"
    ELSE LET vals == Values(c, venv)                                                          \* 3 namespace env
         IN IF \E i \in 1..Len(rec.fields) : rec.fields[i] \notin DOMAIN vals THEN "missing_key"   \* 4 requireKeys
            ELSE LET payload == Payload(rec.alg, Restrict(vals, SeqSet(rec.fields)))         \* 5
                 IN IF \E k \in keyset : k.pair = rec.value.pair /\ k.alg = rec.value.keyalg /\ rec.value.form = "detached" /\ payload = rec.value.payload   \* 6 JWS, detached payload only
                    THEN "ok" ELSE "bad_signature"

(* ---------------- rule-shaped: what the property says ---------------- *)
\* verification succeeds exactly when the record is the one that was made, the key is the
\* signing key, and every signed item still has the signed content
VerifyRule(orig, openv, okey, rec, keyset, c, venv) ==
    LET signed == SignRecord(orig, openv, okey) IN
    /\ rec.alg = signed.alg /\ rec.value = signed.value                  \* algorithm and value unaltered
    /\ SeqSet(rec.fields) = signed.fields                                \* the field list names exactly what was signed
    /\ \E k \in keyset : k.pair = okey.pair /\ k.alg = okey.alg          \* the matching public key
    /\ Canon(c) = Canon(orig)                                            \* command, env, plugins, matrix, repository URL
    /\ \A n \in DOMAIN openv \ DOMAIN orig.env.m :                       \* every signed pipeline variable
          n \in DOMAIN venv /\ n \notin DOMAIN c.env.m /\ venv[n] = openv[n]

(* ---------------- SignSteps walk (C06) ---------------- *)
\* a step tree node: [kind, cmd (unique text), env (set of names the step's env defines), kids]
\* kinds: "command" "wait" "input" "trigger" "unknown" "group"
RECURSIVE HasUnknown(_), CommandNodes(_), FlattenS(_)
FlattenS(ss) == IF Len(ss) = 0 THEN <<>> ELSE Head(ss) \o FlattenS(Tail(ss))
HasUnknown(steps) == \E i \in 1..Len(steps) : steps[i].kind = "unknown" \/ (steps[i].kind = "group" /\ HasUnknown(steps[i].kids))
CommandNodes(steps) == FlattenS([i \in 1..Len(steps) |->
                          IF steps[i].kind = "command" THEN <<steps[i]>>
                          ELSE IF steps[i].kind = "group" THEN CommandNodes(steps[i].kids) ELSE <<>>])
WantFields(node, penvNames) == Mandatory \cup {EnvField(n) : n \in penvNames \ node.env}
=============================================================================
