---------------------------- MODULE MC_KeyPolicy ----------------------------
(* Exhaustive tables for C18. *)
EXTENDS KeyPolicy, TLC, Json
CONSTANTS DoExport, MaxSet
VARIABLES c
\* unknown names that differ from an approved one only in letter case (or by a space): names are compared exactly
CaseVariants == {"ps512", "Es512", "es512", "EDDSA", "eddsa", "Eddsa", "PS512 "}
AllAlgs == SigAlgs \cup EncAlgs \cup {NoAlg, Bogus} \cup CaseVariants
Key(t, a, v, p) == [kty |-> t, alg |-> a, valid |-> v, private |-> p]
\* keys used in key sets: one approved and one rejected shape per type is enough to tell them apart
SetKeys == {[kty |-> "OKP", alg |-> "EdDSA", valid |-> TRUE, private |-> TRUE],
            [kty |-> "OKP", alg |-> NoAlg, valid |-> TRUE, private |-> TRUE],
            [kty |-> "EC", alg |-> "ES512", valid |-> TRUE, private |-> TRUE],
            [kty |-> "oct", alg |-> "HS512", valid |-> TRUE, private |-> TRUE],
            \* a key that PARSES but is structurally invalid, declaring the approved algorithm of its type: loading it fails like validating it
            [kty |-> "EC", alg |-> "ES512", valid |-> FALSE, private |-> FALSE],
            [kty |-> "OKP", alg |-> "EdDSA", valid |-> FALSE, private |-> TRUE]}
Kids == {"k1", "k2", ""}
WithKid(k, id) == [kty |-> k.kty, alg |-> k.alg, valid |-> k.valid, private |-> k.private, kid |-> id]
UniqueKids(s) == \A i, j \in 1..Len(s) : (i # j /\ s[i].kid # "") => s[i].kid # s[j].kid
Init ==
    \/ \E t \in KeyTypes : \E a \in AllAlgs : \E v \in BOOLEAN : \E p \in BOOLEAN :
          c = [table |-> "validate", key |-> Key(t, a, v, p)]
    \/ \E n \in 0..MaxSet : \E ks \in [1..n -> SetKeys] : \E ids \in [1..n -> Kids] : \E req \in {"", "k1", "k2", "k3", "k1 ", " k2", " ", "K1"} :       \* near misses of present ids: an id is matched exactly (no trimming, no case folding); " " is an id
          LET s == [i \in 1..n |-> WithKid(ks[i], ids[i])]
          IN UniqueKids(s) /\ c = [table |-> "loadkey", set |-> s, req |-> req]
Next == FALSE /\ c' = c
Spec == Init /\ [][Next]_c
InvValidate == c.table = "validate" => ((ValidateImpl(c.key) = "ok") <=> Accept(c.key))
InvLoadKey == c.table = "loadkey" => LoadKeyImpl(c.set, c.req) = LoadKeyRule(c.set, c.req)
\* symmetric keys and non-signature algorithms never pass
InvNoSymmetric == (c.table = "validate" /\ (c.key.kty = "oct" \/ c.key.alg \in EncAlgs \cup {NoAlg, Bogus} \cup CaseVariants)) => ~Accept(c.key)
Export == DoExport => PrintT("CASE " \o ToJson(c))
=============================================================================
