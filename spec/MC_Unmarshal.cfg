SPECIFICATION Spec
CONSTANTS
  MaxFields = 2
  DoExport = FALSE
  FixEmptyAlias = TRUE
  FixEmptySliceAny = TRUE
INVARIANTS InvImplEqualsRule InvPartition Export
CHECK_DEADLOCK FALSE
