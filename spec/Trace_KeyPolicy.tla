--------------------------- MODULE Trace_KeyPolicy ---------------------------
(* C18 trace validation. Event kinds:                                        *)
(*  algs       - the algorithm names the JOSE library registers (must equal  *)
(*               the specification's constants, else the table is stale)     *)
(*  validate   - jwkutil.Validate on a key of the table                      *)
(*  loadkey    - jwkutil.LoadKey on a key-set file                           *)
(*  newkeypair - jwkutil.NewKeyPair + Validate of both halves                *)
(*  cross      - signature.Sign with pair i, Verify with pair j              *)
EXTENDS KeyPolicy, Json, IOUtils, TLC
Trace == ndJsonDeserialize(IOEnv.VERIF_TRACE)
N == Len(Trace)
VARIABLES l, bad, mach
vars == <<l, bad, mach>>
SetOf(t) == {t[i] : i \in 1..Len(t)}

WellFormed(e) == e.kind = "algs" => (SetOf(e.sig) = SigAlgs /\ SetOf(e.enc) = EncAlgs)

EventOK(e) ==
    /\ ~e.panic
    /\ CASE e.kind = "algs" -> TRUE
         [] e.kind = "validate" -> e.accepted = Accept(e.c.key)
         \* (a file that also lists an entry which is not a key, asked for "the" key: more than one entry, or no key at all - never answered)
         [] e.kind = "loadkey" /\ "junk" \in DOMAIN e /\ e.junk -> ~e.ok
         [] e.kind = "loadkey" -> LET w == LoadKeyRule(e.c.set, e.c.req) IN e.ok = w.ok /\ (w.ok => e.idx = w.idx)
         [] e.kind = "newkeypair" ->
               IF e.alg \in {"PS512", "ES512", "EdDSA"}
               THEN e.generated /\ e.privvalid /\ e.pubvalid           \* generated keys for the three algorithms validate
               ELSE ~e.generated \/ (~e.privvalid /\ ~e.pubvalid)      \* nothing else yields a key that validates
         [] e.kind = "cross" -> e.signed /\ (e.verified = VerifyOK(e.i, e.j))
         [] OTHER -> FALSE

Init == l = 1 /\ bad = {} /\ mach = {}
Next == /\ l <= N
        /\ l' = l + 1
        /\ mach' = IF WellFormed(Trace[l]) THEN mach ELSE mach \cup {l}
        /\ bad' = IF ~WellFormed(Trace[l]) \/ EventOK(Trace[l]) THEN bad ELSE bad \cup {l}
Spec == Init /\ [][Next]_vars
Report == (l = N + 1) => PrintT("VERIF_DONE " \o ToJson([n |-> N, bad |-> bad, mach |-> mach]))
=============================================================================
