----------------------------- MODULE Trace_Verify -----------------------------
(* C01 trace validation: each event is one real Sign of the original step and  *)
(* one real Verify of the presented state (content, env, record, key set built *)
(* from the case by the driver).  Judged by the rule-shaped VerifyRule.        *)
EXTENDS VerifyCase, Json, IOUtils
Trace == ndJsonDeserialize(IOEnv.VERIF_TRACE)
N == Len(Trace)
VARIABLES l, bad, mach
vars == <<l, bad, mach>>
EventOK(e) ==
    /\ ~e.panic
    /\ e.signed                                  \* signing the original step succeeds
    /\ e.accepted = RuleOf(e.c)                  \* verification succeeds exactly when nothing semantic changed
Init == l = 1 /\ bad = {} /\ mach = {}
Next == /\ l <= N
        /\ l' = l + 1
        /\ mach' = mach
        /\ bad' = IF EventOK(Trace[l]) THEN bad ELSE bad \cup {l}
Spec == Init /\ [][Next]_vars
Report == (l = N + 1) => PrintT("VERIF_DONE " \o ToJson([n |-> N, bad |-> bad, mach |-> mach]))
=============================================================================
