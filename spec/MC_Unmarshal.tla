----------------------------- MODULE MC_Unmarshal -----------------------------
(***************************************************************************)
(* C16 bounded model: programs x inputs.  A program is a struct type built *)
(* from the field pool (<= MaxFields fields, optionally an inline map or   *)
(* an inline struct); an input is a document over the struct's primary     *)
(* keys, aliases, unknown keys and the empty key, each absent / present    *)
(* with a well-typed marker value / null.  TLC checks that the             *)
(* implementation-shaped field loop equals the rule-shaped partition on    *)
(* zero-valued and on pre-filled destinations.                             *)
(***************************************************************************)
EXTENDS Unmarshal, Json
CONSTANTS MaxFields, DoExport
VARIABLES c

PlainIdsAll == <<"f_name", "f_count", "f_flag", "f_tags", "f_items", "f_env", "f_extra", "f_anyv", "f_sub", "f_psub", "f_subs", "f_hid", "f_ratio", "f_camel", "f_nenv">>
\* structs of three fields are drawn from the fields that interact (aliases, appends, pointers, catch-alls): the full pool cubed is out of reach
PlainIdsCore == <<"f_name", "f_count", "f_tags", "f_items", "f_anyv", "f_psub", "f_camel">>
PlainIds == IF MaxFields >= 3 THEN PlainIdsCore ELSE PlainIdsAll
InlineIds == {"none", "i_map", "i_str", "i_str2"}
\* all keys, in the fixed order documents list them
KeyOrder == <<"name", "label", "title", "count", "n", "flag", "tags", "labels", "items", "env", "extra", "anyv", "av", "sub", "psub", "ps", "subs",
              "hidden", "ratio", "nenv", "maxRetries", "MaxRetries", "maxretries", "u1", "", "p", "q", "rest", "rests", "restt">>
Marker(k) == Str("m:" \o k)
SubDocs == { [t |-> "m", kv |-> <<<<"x", Str("m:x")>>, <<"y", Num("41")>>>>], [t |-> "m", kv |-> <<<<"y", Num("42")>>, <<"zz", Str("lost")>>>>] }
\* the values a key may carry: well-typed for the field that could consume it
Vals(k) ==
    CASE k \in {"name", "label", "title", "hidden", "u1", "", "p"} -> {Marker(k)}
      [] k = "count" -> {Num("11")} [] k = "n" -> {Num("12")} [] k = "q" -> {Num("13")}
      [] k = "maxRetries" -> {Num("21")} [] k = "MaxRetries" -> {Num("22")} [] k = "maxretries" -> {Num("23")}     \* the last is no key of any field
      [] k \in {"rest", "rests", "restt"} -> {[t |-> "m", kv |-> <<<<"p", Marker(k)>>, <<"colour", Str("blue")>>>>]}     \* a key spelled like the catch-all field's own (lower-cased) Go name: it is a key like any other
      [] k = "flag" -> {Bool(TRUE)}
      [] k = "ratio" -> {Num("2.5"), Num("3")}          \* an integer is a well-typed value for a float field
      [] k \in {"tags", "labels"} -> {[t |-> "q", e |-> <<Marker(k), Str("second")>>]}
      [] k = "items" -> {[t |-> "q", e |-> <<Marker(k), Num("7"), Null>>], EmptySeq}
      [] k = "env" -> {[t |-> "m", kv |-> <<<<"A", Marker(k)>>>>], [t |-> "m", kv |-> <<<<"A", Marker(k)>>, <<"EMPTY", Null>>>>], [t |-> "m", kv |-> <<>>]}   \* (the last: `env: {}` - an empty map, not "no map")   \* a null inside a map of strings
      [] k = "nenv" -> {[t |-> "m", kv |-> <<<<"a", Marker(k)>>, <<"B", Str("second")>>>>]}
      [] k = "extra" -> {[t |-> "m", kv |-> <<<<"b", Num("1")>>, <<"a", [t |-> "q", e |-> <<Marker(k)>>]>>>>]}
      [] k \in {"anyv", "av"} -> {Marker(k), [t |-> "m", kv |-> <<<<"z", Marker(k)>>, <<"a", EmptySeq>>>>]}
      [] k \in {"sub", "psub", "ps"} -> SubDocs
      [] k = "subs" -> {[t |-> "q", e |-> <<[t |-> "m", kv |-> <<<<"x", Str("m:x")>>, <<"y", Num("41")>>>>], [t |-> "m", kv |-> <<<<"y", Num("42")>>>>]>>]}   \* the second element omits x
NullOK(k) == k \in {"nenv", "name", "count", "flag", "tags", "items", "env", "extra", "anyv", "sub", "psub", "ratio", "subs",
                    "label", "title", "n", "labels", "av", "ps"}     \* primaries, and aliases too: a null alias is still the first PRESENT alias
Absent == [t |-> "absent"]
States(k) == {Absent} \cup Vals(k) \cup (IF NullOK(k) THEN {Null} ELSE {})

FieldsOf(ids, inl) == [i \in 1..Len(ids) |-> FieldPool[ids[i]]] \o (IF inl = "none" THEN <<>> ELSE <<FieldPool[inl]>>)
KeysOf(desc, inl) ==
    UNION {{desc[i].key} \cup {desc[i].aliases[j] : j \in 1..Len(desc[i].aliases)} : i \in {x \in 1..Len(desc) : desc[x].role # "inline"}}
    \cup {"u1", ""} \cup (IF \E i \in 1..Len(desc) : desc[i].key = "maxRetries" THEN {"maxretries"} ELSE {}) \cup (IF inl = "i_str" THEN {"p", "q"} ELSE {}) \cup (IF inl = "i_str2" THEN {"name", "n", "restt"} ELSE {}) \cup (IF inl = "i_map" THEN {"rest"} ELSE {}) \cup (IF inl = "i_str" THEN {"rests"} ELSE {})
RECURSIVE DocsOver(_, _)
DocsOver(K, i) ==
    IF i > Len(KeyOrder) THEN {<<>>}
    ELSE IF KeyOrder[i] \notin K THEN DocsOver(K, i + 1)
    ELSE {IF s = Absent THEN d ELSE <<<<KeyOrder[i], s>>>> \o d : s \in States(KeyOrder[i]), d \in DocsOver(K, i + 1)}
\* increasing index sequences of length <= n (structs list their fields in pool order)
RECURSIVE Picks(_, _)
Picks(from, n) == IF n = 0 \/ from > Len(PlainIds) THEN {<<>>}
                  ELSE {<<>>} \cup UNION {{<<PlainIds[j]>> \o rest : rest \in Picks(j + 1, n - 1)} : j \in from..Len(PlainIds)}

Pre(desc) == [t |-> "m", kv |-> [i \in 1..Len(desc) |->
                <<desc[i].name,
                  CASE desc[i].type = "string" -> Str("PRE") [] desc[i].type = "int" -> Num("-7") [] desc[i].type = "float" -> Num("-7.5")
                    [] desc[i].type = "bool" -> Bool(TRUE)
                    [] desc[i].type = "struct:inl2" -> [t |-> "m", kv |-> << <<"IName", Str("PRE")>>, <<"ICount", Num("-7")>>, <<"IRest", Null>> >>]
                    [] desc[i].type \in {"struct:sub", "struct:inl", "ptr:sub"} ->      \* (a pre-filled pointer field points at a pre-filled struct)
                         [t |-> "m", kv |-> [j \in 1..Len(StructOf(desc[i].type)) |->
                             <<StructOf(desc[i].type)[j].name, IF StructOf(desc[i].type)[j].type = "string" THEN Str("PRE") ELSE Num("-7")>>]]
                    [] OTHER -> Null>>]]

\* a WIDE struct: every field of the pool at once (15 keyed fields and a catch-all), nearly every key of theirs present in one document -
\* how many fields a struct has, or how many of them one document fills, is no part of the rules
FullDoc(K) == LET sel == SelectSeq(KeyOrder, LAMBDA k : k \in K) IN [i \in 1..Len(sel) |-> <<sel[i], CHOOSE v \in Vals(sel[i]) : TRUE>>]
Init == \/ \E ids \in Picks(1, MaxFields) : \E inl \in InlineIds : \E pre \in BOOLEAN :
             LET desc == FieldsOf(ids, inl) IN
             \E doc \in DocsOver(KeysOf(desc, inl), 1) :
                c = [ids |-> ids, inl |-> inl, desc |-> desc, doc |-> doc, pre |-> pre]
        \/ \E inl \in {"i_map", "i_str2", "none"} : \E pre \in BOOLEAN : \E drop \in SUBSET {"name", "count", "tags", "label", "u1"} :
             LET desc == FieldsOf(PlainIdsAll, inl) IN
                c = [ids |-> PlainIdsAll, inl |-> inl, desc |-> desc, doc |-> FullDoc(KeysOf(desc, inl) \ drop), pre |-> pre]
Next == FALSE /\ c' = c
Spec == Init /\ [][Next]_c
Start == IF c.pre THEN Pre(c.desc) ELSE ZeroStruct(c.desc)
InvImplEqualsRule == DecodeImpl(c.desc, c.doc, Start) = Expect(c.desc, c.doc, Start)
\* every document key is consumed by at most one plain field
InvPartition == \A i, j \in 1..Len(c.desc) :
                   (i # j /\ c.desc[i].role = "plain" /\ c.desc[j].role = "plain" /\ Chosen(c.desc[i], DocKeys(c.doc)) # "<none>")
                       => Chosen(c.desc[i], DocKeys(c.doc)) # Chosen(c.desc[j], DocKeys(c.doc))
Export == DoExport => PrintT("CASE " \o ToJson(c))
=============================================================================
