---------------------------- MODULE Trace_Matrix ----------------------------
(* C11 trace validation: every recorded call of the real                     *)
(* CommandStep.InterpolateMatrixPermutation is judged by the rule-shaped     *)
(* matrix specification Accept(m, p); a rejected permutation must leave the  *)
(* step unmodified.                                                          *)
EXTENDS Matrix, Json, IOUtils, TLC

Trace == ndJsonDeserialize(IOEnv.VERIF_TRACE)
N == Len(Trace)
VARIABLES l, bad
vars == <<l, bad>>

EventOK(e) ==
    /\ ~e.panic
    /\ e.accepted = Accept(e.c.m, e.c.p)
    /\ (~e.accepted => ~e.changed)

Init == l = 1 /\ bad = {}
Next == /\ l <= N
        /\ l' = l + 1
        /\ bad' = IF EventOK(Trace[l]) THEN bad ELSE bad \cup {l}
Spec == Init /\ [][Next]_vars
Report == (l = N + 1) => PrintT("VERIF_DONE " \o ToJson([n |-> N, bad |-> bad]))
=============================================================================
