------------------------------- MODULE Steps -------------------------------
(***************************************************************************)
(* C15: how a step's kind is chosen.  Two definitions:                     *)
(*   ImplKind  - implementation-shaped: the dispatch of steps.go           *)
(*               (stepFromMap / stepByType / stepByKeyInference /          *)
(*               NewScalarStep), one test per line of the Go switch;       *)
(*   RuleKind  - rule-shaped: the documented table ("the `type` value when *)
(*               present, otherwise the first matching key family").       *)
(* TLC checks they agree on the whole table; recorded events of the real   *)
(* parser are judged with RuleKind.                                        *)
(***************************************************************************)
EXTENDS Sequences, Integers, FiniteSets

KindKeys == {"command", "commands", "plugins", "wait", "waiter", "block", "input", "manual", "trigger", "group"}

Outcome(k, s) == [kind |-> k, sentinel |-> s]

(* ---------------- rule-shaped ---------------- *)
Families == << {"command", "commands", "plugins"}, {"wait", "waiter"}, {"block", "input", "manual"}, {"trigger"}, {"group"} >>
FamilyKind == << "command", "wait", "input", "trigger", "group" >>
TypeTable == [command |-> "command", script |-> "command", wait |-> "wait", waiter |-> "wait",
              block |-> "input", input |-> "input", manual |-> "input", trigger |-> "trigger", group |-> "group"]

RuleKind(keys, hasType, type) ==
    IF hasType
    THEN IF type \in DOMAIN TypeTable THEN Outcome(TypeTable[type], "none") ELSE Outcome("unknown", "unknown_type")
    ELSE LET hit == {i \in 1..5 : Families[i] \cap keys # {}}
         IN IF hit = {} THEN Outcome("unknown", "inference")
            ELSE Outcome(FamilyKind[CHOOSE i \in hit : \A j \in hit : i <= j], "none")

RuleScalar(s) ==
    IF s \in {"wait", "waiter"} THEN Outcome("wait", "none")
    ELSE IF s \in {"block", "input", "manual"} THEN Outcome("input", "none")
    ELSE Outcome("unknown", "unknown_type")

(* ---------------- implementation-shaped ---------------- *)
StepByType(t) ==
    CASE t = "command" \/ t = "script" -> Outcome("command", "none")
      [] t = "wait" \/ t = "waiter" -> Outcome("wait", "none")
      [] t = "block" \/ t = "input" \/ t = "manual" -> Outcome("input", "none")
      [] t = "trigger" -> Outcome("trigger", "none")
      [] t = "group" -> Outcome("group", "none")
      [] OTHER -> Outcome("unknown", "unknown_type")

StepByKeyInference(keys) ==
    CASE "command" \in keys \/ "commands" \in keys \/ "plugins" \in keys -> Outcome("command", "none")
      [] "wait" \in keys \/ "waiter" \in keys -> Outcome("wait", "none")
      [] "block" \in keys \/ "input" \in keys \/ "manual" \in keys -> Outcome("input", "none")
      [] "trigger" \in keys -> Outcome("trigger", "none")
      [] "group" \in keys -> Outcome("group", "none")
      [] OTHER -> Outcome("unknown", "inference")

\* stepFromMap: o.Get("type") decides which of the two is consulted; extra keys are never looked at
ImplKind(keys, hasType, type) == IF hasType THEN StepByType(type) ELSE StepByKeyInference(keys)

NewScalarStep(s) ==
    CASE s = "wait" \/ s = "waiter" -> Outcome("wait", "none")
      [] s = "block" \/ s = "input" \/ s = "manual" -> Outcome("input", "none")
      [] OTHER -> Outcome("unknown", "unknown_type")
=============================================================================
