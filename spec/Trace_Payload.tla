---------------------------- MODULE Trace_Payload ----------------------------
(* C14 trace validation: SHA-256 of the REAL canonical payload bytes (from the *)
(* debug-signing logger) for two inputs, R runs each with freshly built maps,  *)
(* for Sign and for Verify.                                                    *)
EXTENDS Signing, AV, Json, IOUtils
Trace == ndJsonDeserialize(IOEnv.VERIF_TRACE)
N == Len(Trace)
VARIABLES l, bad, mach
vars == <<l, bad, mach>>
Fn(x) == [k \in DOMAIN x |-> x[k]]
Norm(s) == [c |-> [command |-> s.c.command, env |-> [nil |-> s.c.env.nil, m |-> Fn(s.c.env.m)],
                   plugins |-> [nil |-> s.c.plugins.nil, l |-> [i \in 1..Len(s.c.plugins.l) |-> [src |-> s.c.plugins.l[i].src, cfg |-> s.c.plugins.l[i].cfg]]],
                   matrix |-> s.c.matrix, repo |-> s.c.repo],
            penv |-> Fn(s.penv), alg |-> s.alg]
SignedEnv(s) == [n \in DOMAIN s.penv \ DOMAIN s.c.env.m |-> s.penv[n]]
SameSignedContent(x, y) == x.alg = y.alg /\ Canon(x.c) = Canon(y.c) /\ SignedEnv(x) = SignedEnv(y)
AllEqual(h) == \A i \in 1..Len(h) : h[i] = h[1]
\* "perm" events: two DOCUMENTS that are equal up to the order of mapping keys (TLC checks that they are),
\* parsed by the real Parse; the first command step of each is signed
PermOK(e) ==
    /\ ~e.panic
    /\ EqUnord(e.c.x, e.c.y) /\ ~EqOrd(e.c.x, e.c.y)
    /\ Len(e.hx) > 0 /\ Len(e.hy) > 0 /\ AllEqual(e.hx) /\ AllEqual(e.hy)
    /\ e.vx = e.hx[1] /\ e.vy = e.hy[1]
    /\ e.hx[1] = e.hy[1]                                        \* document key order never reaches the payload
PairOK(e) ==
    /\ ~e.panic
    /\ Len(e.hx) > 0 /\ Len(e.hy) > 0
    /\ AllEqual(e.hx) /\ AllEqual(e.hy)                         \* deterministic, insertion-order insensitive
    /\ e.vx = e.hx[1] /\ e.vy = e.hy[1]                          \* Verify recomputes the very same bytes as Sign
    /\ (e.hx[1] = e.hy[1]) = SameSignedContent(Norm(e.c.x), Norm(e.c.y))   \* injective on semantic content
EventOK(e) == IF "kind" \in DOMAIN e /\ e.kind = "perm" THEN PermOK(e) ELSE PairOK(e)
Init == l = 1 /\ bad = {} /\ mach = {}
Next == /\ l <= N
        /\ l' = l + 1
        /\ mach' = mach
        /\ bad' = IF EventOK(Trace[l]) THEN bad ELSE bad \cup {l}
Spec == Init /\ [][Next]_vars
Report == (l = N + 1) => PrintT("VERIF_DONE " \o ToJson([n |-> N, bad |-> bad, mach |-> mach]))
=============================================================================
