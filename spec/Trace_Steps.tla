----------------------------- MODULE Trace_Steps -----------------------------
(* C15 trace validation: every recorded parse of a one-step document is      *)
(* judged by the rule-shaped table RuleKind / RuleScalar.                     *)
EXTENDS Steps, Json, IOUtils, TLC

Trace == ndJsonDeserialize(IOEnv.VERIF_TRACE)
N == Len(Trace)
VARIABLES l, bad
vars == <<l, bad>>

SetOf(t) == {t[i] : i \in 1..Len(t)}
Want(e) == IF e.c.form = "map" THEN RuleKind(SetOf(e.c.keys), e.c.type # "<absent>", e.c.type) ELSE RuleScalar(e.c.s)

\* a row whose command-family keys (or a group's `steps`) hold values their fields cannot take: the step is the kind the
\* rule says or - reported - an unknown step; never another known kind, whatever other keys it carries
MalformedOK(e) ==
    /\ ~e.panic /\ ~e.hard /\ e.nsteps = 1
    /\ e.kind \in {Want(e).kind, "unknown"}
    /\ (e.kind = "unknown" => e.warn)
    /\ e.nfb = e.nunk
EventOK(e) ==
    IF "malformed" \in DOMAIN e /\ e.malformed THEN MalformedOK(e) ELSE
    /\ ~e.panic
    /\ ~e.hard                                  \* a well-typed one-step document never hard-fails
    /\ e.nsteps = 1
    /\ e.kind = Want(e).kind                    \* never a different kind
    /\ (Want(e).kind = "unknown" => (e.warn /\ e.sentinel = Want(e).sentinel))   \* reported, with the right reason
    /\ e.nfb = e.nunk                                                              \* ... every unknown step of the sequence by a report of its own

Init == l = 1 /\ bad = {}
Next == /\ l <= N
        /\ l' = l + 1
        /\ bad' = IF EventOK(Trace[l]) THEN bad ELSE bad \cup {l}
Spec == Init /\ [][Next]_vars
Report == (l = N + 1) => PrintT("VERIF_DONE " \o ToJson([n |-> N, bad |-> bad]))
=============================================================================
