---------------------------- MODULE MC_SignSteps ----------------------------
(***************************************************************************)
(* C06 bounded model: SignSteps as a depth-first walk with an explicit     *)
(* stack, one action per case of the Go switch (WalkSign, WalkEnterGroup,  *)
(* WalkSkip, WalkRefuseUnknown, WalkPop).  For every step tree of the      *)
(* bounded family TLC checks that the walk terminates, that success means  *)
(* every command step at every depth was signed with exactly the rule's    *)
(* field set and no unknown step exists, and that an unknown step anywhere *)
(* ends in refusal.                                                        *)
(***************************************************************************)
EXTENDS Signing, Json
CONSTANTS MaxNodes, MaxDepth, DoExport
VARIABLES tree, penv, stack, signed, status
vars == <<tree, penv, stack, signed, status>>

EnvSets == {{}, {"A"}}
Leaf(k, e) == [kind |-> k, env |-> e, kids |-> <<>>]
Leaves == {Leaf("command", e) : e \in EnvSets} \cup {Leaf(k, {}) : k \in {"wait", "input", "trigger", "unknown"}}
RECURSIVE Size(_), SizeL(_), Lists(_, _), Nodes(_, _)
Size(n) == 1 + SizeL(n.kids)
SizeL(l) == IF Len(l) = 0 THEN 0 ELSE Size(Head(l)) + SizeL(Tail(l))
Nodes(n, d) == IF n < 1 THEN {} ELSE Leaves \cup (IF d > 0 THEN {[kind |-> "group", env |-> {}, kids |-> ks] : ks \in Lists(n - 1, d - 1)} ELSE {})
Lists(n, d) == {<<>>} \cup UNION {{<<nd>> \o rest : rest \in Lists(n - Size(nd), d)} : nd \in Nodes(n, d)}

PEnvs == {<<>>, ("A" :> "pa"), ("A" :> "pa") @@ ("B" :> "pb")}
Init == /\ tree \in Lists(MaxNodes, MaxDepth) /\ penv \in PEnvs
        /\ stack = <<[steps |-> tree, i |-> 1, path |-> <<>>]>> /\ signed = <<>> /\ status = "walking"
Top == stack[Len(stack)]
Cur == Top.steps[Top.i]
Advance == [stack EXCEPT ![Len(stack)].i = @ + 1]
Walking == status = "walking" /\ Len(stack) > 0 /\ Top.i <= Len(Top.steps)
WalkSign == /\ Walking /\ Cur.kind = "command"
            /\ signed' = Append(signed, [path |-> Append(Top.path, Top.i), fields |-> WantFields(Cur, DOMAIN penv)])
            /\ stack' = Advance /\ UNCHANGED <<tree, penv, status>>
WalkEnterGroup == /\ Walking /\ Cur.kind = "group"
                  /\ stack' = Append(Advance, [steps |-> Cur.kids, i |-> 1, path |-> Append(Top.path, Top.i)])
                  /\ UNCHANGED <<tree, penv, signed, status>>
WalkSkip == /\ Walking /\ Cur.kind \in {"wait", "input", "trigger"}
            /\ stack' = Advance /\ UNCHANGED <<tree, penv, signed, status>>
WalkRefuseUnknown == /\ Walking /\ Cur.kind = "unknown"
                     /\ status' = "refused" /\ UNCHANGED <<tree, penv, stack, signed>>
WalkPop == /\ status = "walking" /\ Len(stack) > 0 /\ Top.i > Len(Top.steps)
           /\ stack' = SubSeq(stack, 1, Len(stack) - 1)
           /\ status' = IF Len(stack) = 1 THEN "ok" ELSE "walking"
           /\ UNCHANGED <<tree, penv, signed>>
Next == WalkSign \/ WalkEnterGroup \/ WalkSkip \/ WalkRefuseUnknown \/ WalkPop
Spec == Init /\ [][Next]_vars /\ WF_vars(Next)

Done == status \in {"ok", "refused"}
InvSuccessMeansAllSigned ==
    status = "ok" => /\ ~HasUnknown(tree)
                     /\ Len(signed) = Len(CommandNodes(tree))
                     /\ \A i \in 1..Len(signed) : signed[i].fields = WantFields(CommandNodes(tree)[i], DOMAIN penv)
InvRefusedOnlyForUnknown == status = "refused" => HasUnknown(tree)
InvUnknownNeverOk == HasUnknown(tree) => status # "ok"
Termination == <>Done
RECURSIVE TreeJ(_)
TreeJ(l) == [i \in 1..Len(l) |-> [kind |-> l[i].kind, env |-> l[i].env, kids |-> TreeJ(l[i].kids)]]
Export == (DoExport /\ status = "walking" /\ signed = <<>> /\ Len(stack) = 1 /\ stack[1].i = 1) =>
             PrintT("CASE " \o ToJson([tree |-> TreeJ(tree), penv |-> penv]))
=============================================================================
