-------------------------- MODULE MC_OrderedMapEq --------------------------
(***************************************************************************)
(* C05, equality over ALL PAIRS of maps reached: two implementation-shaped *)
(* maps evolve independently (first a, then b); in every reachable pair    *)
(* the two-cursor Equal loop must answer exactly "same keys, values and    *)
(* order" (pair-list equality, nil equal only to nil), in both argument    *)
(* orders, and never run off a slot array.                                 *)
(***************************************************************************)
EXTENDS OrderedMapImpl

CONSTANTS Keys, Vals, MaxA, MaxB

VARIABLES a, b, pa, pb, na, nb, phase
vars == <<a, b, pa, pb, na, nb, phase>>
view == <<a, b, phase, na, nb>>

SetOps == {[op |-> "set", k |-> k, v |-> v] : k \in Keys, v \in Vals}
RepOps == {[op |-> "replace", old |-> o, new |-> n, v |-> v] : o \in Keys, n \in Keys, v \in Vals}
DelOps == {[op |-> "delete", k |-> k] : k \in Keys}
Ops == SetOps \cup RepOps \cup DelOps

IApply(mm, o) ==
    CASE o.op = "set"     -> ISet(mm, o.k, o.v)
      [] o.op = "replace" -> IReplace(mm, o.old, o.new, o.v)
      [] o.op = "delete"  -> IDelete(mm, o.k)
AApply(p, o) ==
    CASE o.op = "set"     -> ASet(p, o.k, o.v)
      [] o.op = "replace" -> AReplace(p, o.old, o.new, o.v)
      [] o.op = "delete"  -> ADelete(p, o.k)

Init == /\ a \in {NilMap, EmptyMap} /\ b \in {NilMap, EmptyMap}
        /\ pa = Abs(a) /\ pb = Abs(b)
        /\ na = 0 /\ nb = 0 /\ phase = "a"

StepA == /\ phase = "a" /\ na < MaxA
         /\ \E o \in Ops : (~a.nil \/ o.op = "delete") /\ a' = IApply(a, o) /\ pa' = AApply(pa, o)
         /\ na' = na + 1 /\ UNCHANGED <<b, pb, nb, phase>>
Switch == phase = "a" /\ phase' = "b" /\ UNCHANGED <<a, b, pa, pb, na, nb>>
StepB == /\ phase = "b" /\ nb < MaxB
         /\ \E o \in Ops : (~b.nil \/ o.op = "delete") /\ b' = IApply(b, o) /\ pb' = AApply(pb, o)
         /\ nb' = nb + 1 /\ UNCHANGED <<a, pa, na, phase>>
Next == StepA \/ Switch \/ StepB
Spec == Init /\ [][Next]_vars

Want == IF AEqual(pa, pb) THEN "true" ELSE "false"
InvEqualExact == IEqual(a, b) = Want
InvEqualSymmetric == IEqual(b, a) = IEqual(a, b)
=============================================================================
