SPECIFICATION Spec
CONSTANTS
  FixEmptyAlias = TRUE
  FixEmptySliceAny = TRUE
INVARIANT Report
CHECK_DEADLOCK FALSE
