------------------------------ MODULE MC_Steps ------------------------------
(* Exhaustive table for C15: all 1024 subsets of the ten kind-determining   *)
(* keys x every `type` value x extras; and all scalar step strings.         *)
EXTENDS Steps, TLC, Json

CONSTANTS Types, Extras, Scalars, DoExport

VARIABLES c
NoType == "<absent>"

MapCases == {[form |-> "map", keys |-> ks, type |-> t, extra |-> x] : ks \in SUBSET KindKeys, t \in Types \cup {NoType}, x \in Extras}
ScalarCases == {[form |-> "scalar", s |-> s] : s \in Scalars}

Init == c \in MapCases \cup ScalarCases
Next == FALSE /\ c' = c
Spec == Init /\ [][Next]_c

Has(cc) == cc.type # NoType
InvImplEqualsRule ==
    IF c.form = "map" THEN ImplKind(c.keys, Has(c), c.type) = RuleKind(c.keys, Has(c), c.type)
    ELSE NewScalarStep(c.s) = RuleScalar(c.s)
\* an unknown outcome always names its reason; a known kind never carries one
InvSentinel ==
    LET o == IF c.form = "map" THEN RuleKind(c.keys, Has(c), c.type) ELSE RuleScalar(c.s)
    IN (o.kind = "unknown") <=> (o.sentinel # "none")
Export == DoExport => PrintT("CASE " \o ToJson(c))
=============================================================================
