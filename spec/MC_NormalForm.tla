---------------------------- MODULE MC_NormalForm ----------------------------
(***************************************************************************)
(* C03 bounded model (family F1: primary keys, aliases, extras).           *)
(* Implementation-shaped: a command / group step is decoded by the         *)
(* reflective unmarshaler's field loop (module Unmarshal) over the         *)
(* DESCRIPTORS of the real structs - the wrapper with `commands` (alias    *)
(* `command`) and the inline remainder; key (aliases id, identifier);      *)
(* label (alias name); group (aliases label, name) - and then marshalled   *)
(* (omitempty, inline map merged under the outline fields).  TLC checks    *)
(* that this equals the rule-shaped normal form on every key subset.       *)
(***************************************************************************)
EXTENDS NormalForm, Unmarshal, Json
CONSTANTS DoExport
VARIABLES c
ST == [x \in {"docker#v1"} |-> "github.com/buildkite-plugins/docker-buildkite-plugin#v1"]

CmdKeys == <<"command", "commands", "key", "id", "identifier", "label", "name", "plugins", "env", "zz", "">>
GrpKeys == <<"group", "label", "name", "key", "id", "identifier", "steps", "zz", "">>
ValFor(k) == CASE k = "commands" -> SeqV(<<Str("c1"), Num("2")>>) [] k = "command" -> Str("m:command")
               [] k = "plugins" -> SeqV(<<Map(<< <<"docker#v1", Map(<<>>)>> >>), Str("./x")>>)
               [] k = "env" -> Map(<< <<"E", Num("1")>> >>)
               [] k = "steps" -> SeqV(<<Str("wait")>>)
               [] OTHER -> Str("m:" \o k)
RECURSIVE DocsOf(_, _)
DocsOf(keys, i) == IF i > Len(keys) THEN {<<>>}
                   ELSE {pre \o d : pre \in {<<>>, << <<keys[i], ValFor(keys[i])>> >>}, d \in DocsOf(keys, i + 1)}

Init == \/ \E d \in DocsOf(CmdKeys, 1) : c = [kind |-> "command", doc |-> d]
        \/ \E d \in DocsOf(GrpKeys, 1) : c = [kind |-> "group", doc |-> d]
Next == FALSE /\ c' = c
Spec == Init /\ [][Next]_c

F_(st, name) == Get(st, name)
NonEmpty(k, v) == IF v = Null \/ v = Str("") THEN <<>> ELSE << <<k, v>> >>
\* json.go: inline fields first, outline fields take precedence
Merge(outline, inline) == SelectSeq(inline, LAMBDA p : \A i \in 1..Len(outline) : outline[i][1] # p[1]) \o outline
MarshalCommand(doc) ==
    LET st == DecodeImpl(Structs.cmdouter, doc, ZeroStruct(Structs.cmdouter))
        rem == F_(st, "Rem")
        cmds == F_(st, "Commands")
        rf == F_(rem, "RemainingFields")
        outline == << <<"command", Str(JoinNL(StrList(cmds)))>> >>
                   \o NonEmpty("key", IF F_(rem, "Key") = Null THEN Null ELSE StrOf(F_(rem, "Key")))
                   \o NonEmpty("label", IF F_(rem, "Label") = Null THEN Null ELSE StrOf(F_(rem, "Label")))
                   \o (IF F_(rem, "Plugins") = Null THEN <<>> ELSE << <<"plugins", NormPlugins(F_(rem, "Plugins"))>> >>)
                   \o (IF F_(rem, "Env") = Null THEN <<>> ELSE << <<"env", StrValues(F_(rem, "Env"))>> >>)
    IN Map(Merge(outline, IF rf = Null THEN <<>> ELSE rf.kv))
MarshalGroup(doc) ==
    LET st == DecodeImpl(Structs.group, doc, ZeroStruct(Structs.group))
        rf == F_(st, "RemainingFields")
        outline == << <<"group", IF F_(st, "Group") = Null THEN Null ELSE StrOf(F_(st, "Group"))>>,
                      <<"steps", NormSteps(F_(st, "Steps"))>> >>
                   \o NonEmpty("key", IF F_(st, "Key") = Null THEN Null ELSE StrOf(F_(st, "Key")))
    IN Map(Merge(outline, IF rf = Null THEN <<>> ELSE rf.kv))
InvParseMarshalEqualsNormal ==
    IF c.kind = "command" THEN EqUnord(MarshalCommand(c.doc), NormCommand(Map(c.doc)))
    ELSE EqUnord(MarshalGroup(c.doc), NormGroup(Map(c.doc)))
\* no data loss: every written key is either consumed by a documented rule or present in the output
InvNoLoss ==
    LET out == IF c.kind = "command" THEN MarshalCommand(c.doc) ELSE MarshalGroup(c.doc)
        ruled == IF c.kind = "command" THEN {"command", "commands", "key", "id", "identifier", "label", "name"} ELSE {"group", "label", "name", "key", "id", "identifier"}
    IN \A i \in 1..Len(c.doc) : c.doc[i][1] \in ruled \/ MHas(out, c.doc[i][1])
=============================================================================
