---------------------------- MODULE MC_RoundTrip ----------------------------
(***************************************************************************)
(* C02 bounded model: sign -> serialise -> backend reorders keys ->        *)
(* re-parse -> verify, over the content shapes of module Signing.          *)
(* Serialise/Reparse are written as what marshalling + parsing do to each  *)
(* shape (omitempty drops nil and empty env/plugins; sources are emitted   *)
(* canonical; empty configs become null; a simple matrix is reduced to its *)
(* list and comes back the same; scalars in env/matrix/configs keep their  *)
(* JSON type or are already strings).  TLC checks that the signed content  *)
(* is preserved, hence the symbolic verification accepts - for both        *)
(* formats and both re-parse entry points.                                 *)
(***************************************************************************)
EXTENDS VerifyCase, TLC
VARIABLES c
E(nil, m) == [nil |-> nil, m |-> m]
PL(nil, l) == [nil |-> nil, l |-> l]
Srcs == {"short", "canon", "other", "other2"}
Cfgs == {"null", "empty", "emptylist", "kv", "deep_v", "num1", "str1", "bfalse", "zero", "emptystr"}
Mats == {"nil", "list_ab", "setup_os", "adj_base", "adj_skip", "adj_extra"}
Envs == {E(TRUE, <<>>), E(FALSE, <<>>), E(FALSE, ("A" :> "1")), E(FALSE, ("A" :> "1") @@ ("C" :> "true"))}
Init == \E e \in Envs : \E s \in Srcs : \E g \in Cfgs : \E np \in 0..2 : \E m \in Mats : \E pe \in {<<>>, ("A" :> "pa"), ("A" :> "pa") @@ ("B" :> "pb")} :
          \E fmt \in {"json", "yaml"} : \E entry \in {"parse", "stepjson"} : \E key \in {[pair |-> "K1", alg |-> "EdDSA"], [pair |-> "K1", alg |-> "ES256"]} :
            c = [o |-> [command |-> "echo hi", env |-> e,
                        plugins |-> (IF np = 0 THEN PL(TRUE, <<>>) ELSE IF np = 1 THEN PL(FALSE, <<[src |-> s, cfg |-> g]>>)
                                     ELSE PL(FALSE, <<[src |-> s, cfg |-> g], [src |-> "other", cfg |-> "null"]>>)),
                        matrix |-> m, repo |-> "https://example.com/r.git"],
                 penv |-> pe, fmt |-> fmt, entry |-> entry, key |-> key]
Next == FALSE /\ c' = c
Spec == Init /\ [][Next]_c

\* what the marshalled text says, and what parsing it gives back
SerSrc == [short |-> "canon", canon |-> "canon", suffixed |-> "suffixed", other |-> "other", other2 |-> "other2"]       \* sources are emitted in full form
SerCfg == [null |-> "null", empty |-> "null", emptylist |-> "null", kv |-> "kv", kw |-> "kw", deep_v |-> "deep_v", deep_w |-> "deep_w",
           num1 |-> "num1", str1 |-> "str1", bfalse |-> "bfalse", zero |-> "zero", emptystr |-> "emptystr"]
SerEnv(e) == IF DOMAIN e.m = {} THEN E(TRUE, <<>>) ELSE e                                    \* omitempty: nil and empty both vanish
SerPlugins(p) == IF Len(p.l) = 0 THEN PL(TRUE, <<>>) ELSE PL(FALSE, [i \in 1..Len(p.l) |-> [src |-> SerSrc[p.l[i].src], cfg |-> SerCfg[p.l[i].cfg]]])
RoundTrip(o) == [o EXCEPT !.env = SerEnv(o.env), !.plugins = SerPlugins(o.plugins)]           \* matrix shapes and command come back as they are
\* the verification env: the re-parsed pipeline env plus unrelated variables
VEnv == ("UNRELATED" :> "x") @@ c.penv

Signed == SignRecord(c.o, c.penv, c.key)
InvContentPreserved == Canon(RoundTrip(c.o)) = Canon(c.o)
InvStillVerifies == VerifyImpl([alg |-> Signed.alg, fields |-> SetToSeq(Signed.fields), value |-> Signed.value], {c.key}, RoundTrip(c.o), VEnv) = "ok"
=============================================================================
