------------------------- MODULE OrderedMapImpl -------------------------
(***************************************************************************)
(* Implementation-shaped model of ordered/map.go: slots with tombstones,   *)
(* the key index, deferred compaction in Delete, Replace's tombstoning of  *)
(* a colliding key, Range skipping tombstones, the two-cursor loop of      *)
(* Equal.  A map value is a record [items, index, nil].                    *)
(*                                                                         *)
(* Two switches select the code as it was at the pinned commit (FALSE)     *)
(* or as repaired (TRUE); with FALSE, TLC itself finds the two defects:    *)
(*   FixReplaceSelf : Replace(k,k,v) on an absent k indexes the new slot   *)
(*   FixEqualBounds : Equal's tombstone-skipping loops stay within bounds  *)
(***************************************************************************)
EXTENDS OrderedMap

CONSTANTS FixReplaceSelf, FixEqualBounds

Slot(k, v, d) == [k |-> k, v |-> v, d |-> d]

NilMap   == [items |-> <<>>, index |-> <<>>, nil |-> TRUE]
EmptyMap == [items |-> <<>>, index |-> <<>>, nil |-> FALSE]   \* NewMap(n) and new(Map) alike

IdxHas(m, k) == k \in DOMAIN m.index

\* ----- refinement mapping: the live slots in order -----
Live(items) == SelectSeq(items, LAMBDA s : ~s.d)
Abs(m) == IF m.nil THEN NIL
          ELSE LET l == Live(m.items) IN AV([i \in 1..Len(l) |-> P(l[i].k, l[i].v)])

\* ----- representation invariant -----
Consistent(m) ==
    /\ m.nil => (m.items = <<>> /\ DOMAIN m.index = {})
    /\ \A k \in DOMAIN m.index :
          /\ m.index[k] \in 1..Len(m.items)
          /\ ~m.items[m.index[k]].d
          /\ m.items[m.index[k]].k = k
    /\ \A i \in 1..Len(m.items) :
          ~m.items[i].d => (IdxHas(m, m.items[i].k) /\ m.index[m.items[i].k] = i)

\* ----- observers, as in the code -----
ILen(m) == Cardinality(DOMAIN m.index)
IIsZero(m) == m.nil \/ ILen(m) = 0
IGet(m, k) == IF ~m.nil /\ IdxHas(m, k) THEN [none |-> FALSE, v |-> m.items[m.index[k]].v] ELSE NONE
IContains(m, k) == ~m.nil /\ IdxHas(m, k)
IRange(m) == IF IIsZero(m) THEN <<>>
             ELSE LET l == Live(m.items) IN [i \in 1..Len(l) |-> P(l[i].k, l[i].v)]

\* ----- mutators, as in the code -----
ISet(m, k, v) ==
    IF IdxHas(m, k)
    THEN [m EXCEPT !.items[m.index[k]].v = v]
    ELSE [m EXCEPT !.items = Append(m.items, Slot(k, v, FALSE)),
                   !.index = (k :> (Len(m.items) + 1)) @@ m.index]

IReplace(m, o, n, v) ==
    LET exists == IdxHas(m, o)
        idx    == IF exists THEN m.index[o] ELSE Len(m.items) + 1
        items1 == IF exists THEN m.items ELSE Append(m.items, Slot(n, v, FALSE))
        items2 == IF o # n /\ IdxHas(m, n) THEN [items1 EXCEPT ![m.index[n]].d = TRUE] ELSE items1
        index2 == IF o # n
                  THEN [x \in (DOMAIN m.index \ {o}) \cup {n} |-> IF x = n THEN idx ELSE m.index[x]]
                  ELSE IF ~exists /\ FixReplaceSelf
                       THEN (n :> idx) @@ m.index
                       ELSE m.index
    IN [m EXCEPT !.items = [items2 EXCEPT ![idx] = Slot(n, v, FALSE)], !.index = index2]

Compact(items, index) ==
    LET l == Live(items)
    IN [items |-> [i \in 1..Len(l) |-> Slot(l[i].k, l[i].v, FALSE)],
        index |-> [k \in DOMAIN index |-> CHOOSE i \in 1..Len(l) : l[i].k = k]]

IDelete(m, k) ==
    IF m.nil \/ ~IdxHas(m, k) THEN m
    ELSE LET items1 == [m.items EXCEPT ![m.index[k]].d = TRUE]
             index1 == [x \in DOMAIN m.index \ {k} |-> m.index[x]]
         IN IF Len(items1) >= 2 * Cardinality(DOMAIN index1)
            THEN LET c == Compact(items1, index1) IN [m EXCEPT !.items = c.items, !.index = c.index]
            ELSE [m EXCEPT !.items = items1, !.index = index1]

\* ----- Equal: the two-cursor loop, step by step -----
\* Result "true" / "false" / "panic" (index out of range).
RECURSIVE EqLoop(_, _, _, _)
SkipFrom(items, i) ==        \* first position >= i that is live, or Len+1 ("past the end")
    LET c == {j \in i..Len(items) : ~items[j].d}
    IN IF c = {} THEN Len(items) + 1 ELSE CHOOSE j \in c : \A x \in c : j <= x
EqLoop(a, b, i, j) ==
    IF ~(i <= Len(a.items) /\ j <= Len(b.items)) THEN "true"
    ELSE LET i2 == SkipFrom(a.items, i)
             j2 == SkipFrom(b.items, j)
         IN IF i2 > Len(a.items) \/ j2 > Len(b.items)
            THEN (IF FixEqualBounds THEN "true" ELSE "panic")   \* both maps have equal Len, so both ran out
            ELSE IF a.items[i2].k # b.items[j2].k THEN "false"
            ELSE IF a.items[i2].v # b.items[j2].v THEN "false"
            ELSE EqLoop(a, b, i2 + 1, j2 + 1)
IEqual(a, b) ==
    IF a.nil \/ b.nil THEN (IF a.nil = b.nil THEN "true" ELSE "false")
    ELSE IF ILen(a) # ILen(b) THEN "false"
    ELSE EqLoop(a, b, 1, 1)

\* ----- Range with a renaming callback (as interpolateOrderedMap does) -----
\* `for _, p := range m.items` fixes the slice length at loop start but reads each
\* slot when it is reached, so tombstones set by the callback are seen.
RECURSIVE RangeLoop(_, _, _, _, _)
RangeLoop(m, f, i, n, y) ==
    IF i > n THEN [m |-> m, yields |-> y]
    ELSE IF m.items[i].d THEN RangeLoop(m, f, i + 1, n, y)
    ELSE LET k == m.items[i].k
             v == m.items[i].v
         IN RangeLoop(IReplace(m, k, f[k].k, f[k].v), f, i + 1, n, Append(y, P(k, v)))
IRangeRename(m, f) ==
    IF IIsZero(m) THEN [m |-> m, yields |-> <<>>]
    ELSE RangeLoop(m, f, 1, Len(m.items), <<>>)
=============================================================================
