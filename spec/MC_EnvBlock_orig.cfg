SPECIFICATION Spec
CONSTANTS
  RenameInPlace = TRUE
  MaxEntries = 2
  PoolSize = 10
  DoExport = FALSE
INVARIANTS InvAtDone InvDefinitionOrder InvRuntimePrecedence Export
PROPERTY Termination
CHECK_DEADLOCK FALSE
