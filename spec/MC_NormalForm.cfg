SPECIFICATION Spec
CONSTANTS
  DoExport = FALSE
  SourceTable <- ST
  FixEmptyAlias = TRUE
  FixEmptySliceAny = TRUE
INVARIANTS InvParseMarshalEqualsNormal InvNoLoss
CHECK_DEADLOCK FALSE
