-------------------------- MODULE Trace_MatrixInterp --------------------------
(* C12 trace validation: the marshalled command step before and after the real *)
(* InterpolateMatrixPermutation(p) with a VALID permutation, the token form of *)
(* every generated string, and the call's error.                               *)
EXTENDS MatrixInterp, Json, IOUtils, TLC
Trace == ndJsonDeserialize(IOEnv.VERIF_TRACE)
N == Len(Trace)
VARIABLES l, bad, mach
vars == <<l, bad, mach>>
Dict(e) == [s \in {e.strings[i][1] : i \in 1..Len(e.strings)} |->
              e.strings[CHOOSE i \in 1..Len(e.strings) : e.strings[i][1] = s][2]]
Perm(e) == [x \in DOMAIN e.p |-> e.p[x]]
WellFormed(e) == \A i \in 1..Len(e.strings) : e.strings[i][1] = MSpell(e.strings[i][2])
EventOK(e) ==
    LET D == Dict(e)
        p == Perm(e)
        ins == InScope(e.before, "cstep")
        fails == \E i \in 1..Len(ins) : ins[i] \in DOMAIN D /\ MUnknown(D[ins[i]], p)
    IN /\ ~e.panic
       /\ IF DOMAIN p = {} THEN ~e.err /\ EqUnord(e.after, e.before)             \* an empty permutation changes nothing
          ELSE IF fails THEN e.err                                                 \* unknown dimension: the call fails
          ELSE ~e.err /\ EqUnord(e.after, XM(D, p, e.before, "cstep"))             \* exactly the tokens, only in scope
Init == l = 1 /\ bad = {} /\ mach = {}
Next == /\ l <= N
        /\ l' = l + 1
        /\ mach' = IF WellFormed(Trace[l]) THEN mach ELSE mach \cup {l}
        /\ bad' = IF ~WellFormed(Trace[l]) \/ EventOK(Trace[l]) THEN bad ELSE bad \cup {l}
Spec == Init /\ [][Next]_vars
Report == (l = N + 1) => PrintT("VERIF_DONE " \o ToJson([n |-> N, bad |-> bad, mach |-> mach]))
=============================================================================
