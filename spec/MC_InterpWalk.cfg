SPECIFICATION Spec
CONSTANTS
  N = 3
  RevisitRenamedKeys = FALSE
INVARIANTS InvOnce InvSinglePass InvUntouched
PROPERTY Termination
CHECK_DEADLOCK FALSE
