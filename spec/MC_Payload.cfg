SPECIFICATION Spec
CONSTANTS
  DoExport = TRUE
  EnvNames = {"A", "B", "a"}
INVARIANTS InvInjective Export
CHECK_DEADLOCK FALSE
