SPECIFICATION Spec
CONSTANTS
  DoExport = TRUE
  EnvNames = {"A", "B", "a", "env::A"}
INVARIANTS InvInjective Export
CHECK_DEADLOCK FALSE
