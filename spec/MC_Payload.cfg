SPECIFICATION Spec
CONSTANTS
  DoExport = TRUE
  EnvNames = {"A", "B"}
INVARIANTS InvInjective Export
CHECK_DEADLOCK FALSE
