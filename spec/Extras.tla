------------------------------- MODULE Extras -------------------------------
(***************************************************************************)
(* Behaviour of go-pipeline beyond the listed properties (the spec keeps   *)
(* growing): the warning algebra, the case-folding environment, the        *)
(* outcome table of ordered.Unmarshal for (source kind, destination kind), *)
(* MatrixPermutation's JSON form, and the precedence of outline over       *)
(* inline fields when marshalling.  Checked by `bin/check-extras`; a       *)
(* mismatch here is reported as SPEC-MISMATCH, never as a VIOLATION of a   *)
(* listed property.                                                        *)
(***************************************************************************)
EXTENDS Sequences, Integers, FiniteSets, TLC

(* ---------------- warning package ---------------- *)
\* A warning tree: [w |-> TRUE, msg, kids] or a plain error [w |-> FALSE, msg].
\* Wrap(errs): nil for no errors; the error itself when it is a single warning; else a new message-less warning.
WrapResult(errs) == IF Len(errs) = 0 THEN "nil"
                    ELSE IF Len(errs) = 1 /\ errs[1].w THEN "same"
                    ELSE "new"
\* Is/As look at the top level only
IsWarning(e) == e.w
\* Wrapf on a warning: sets the message in place when it has none, else wraps
WrapfResult(w) == IF w.msg = "" THEN "inplace" ELSE "wrapped"
\* number of leaf (non-warning) errors reachable by Unwrap
RECURSIVE Leaves(_), LeavesSeq(_)
LeavesSeq(s) == IF Len(s) = 0 THEN 0 ELSE Leaves(Head(s)) + LeavesSeq(Tail(s))
Leaves(e) == IF e.w THEN LeavesSeq(e.kids) ELSE 1

(* ---------------- internal/env ---------------- *)
\* an Env is a function from NORMALISED names; insensitive envs upper-case names (the original casing is lost)
EnvSet(env, insensitive, upper, k, v) == (IF insensitive THEN upper ELSE k) :> v @@ env
EnvGet(env, insensitive, upper, k) ==
    LET n == IF insensitive THEN upper ELSE k IN IF n \in DOMAIN env THEN [ok |-> TRUE, v |-> env[n]] ELSE [ok |-> FALSE, v |-> ""]

(* ---------------- ordered.Unmarshal outcome table ---------------- *)
SrcKinds == {"nil", "string", "int", "float", "bool", "seq", "map", "gomap"}
DstKinds == {"nil_iface", "string_value", "nil_ptr_string", "ptr_string", "ptr_int", "ptr_float", "ptr_bool", "ptr_any",
             "ptr_slice_string", "ptr_slice_any", "ptr_slice_int", "ptr_slice_bool", "ptr_slice_float", "slice_any_value",
             "ptr_map_sa", "ptr_map_ss", "ptr_map_int_key", "map_sa_value", "nil_map_sa_value", "ptr_struct", "nil_ptr_struct", "ptr_ptr_struct",
             "ptr_ordered", "nil_ptr_ordered"}
Scalar(s) == s \in {"string", "int", "float", "bool"}
\* what the documentation of Unmarshal promises; "ok" or the sentinel that errors.Is finds
Outcome(s, d) ==
    CASE d = "nil_iface" -> (IF s = "nil" THEN "ok" ELSE "ErrIntoNil")
      [] d \in {"ptr_ordered", "nil_ptr_ordered"} ->                     \* *Map is an Unmarshaler: only a *Map[string,any] source
            (IF d = "nil_ptr_ordered" THEN "ErrIntoNil" ELSE IF s = "map" THEN "ok" ELSE "ErrIncompatibleTypes")
      [] s = "nil" -> (IF d \in {"string_value", "slice_any_value", "map_sa_value", "nil_map_sa_value"} THEN "ErrIntoNonPointer" ELSE "ok")   \* zeroes what is pointed to
      [] d \in {"nil_ptr_string", "nil_ptr_struct"} -> "ErrIntoNil"
      [] d = "ptr_any" -> "ok"
      [] s = "gomap" -> "ErrUnsupportedSrc"
      [] s = "map" -> (CASE d \in {"ptr_map_sa", "ptr_struct", "ptr_ptr_struct", "map_sa_value"} -> "ok"
                         [] d = "ptr_map_ss" -> "ErrIncompatibleTypes"        \* the test map holds a non-string value
                         [] d = "nil_map_sa_value" -> "ErrNotSettable"
                         [] OTHER -> "ErrIncompatibleTypes")
      [] s = "seq" -> (CASE d \in {"ptr_slice_any"} -> "ok"
                         [] d = "ptr_slice_string" -> "ok"                     \* elements are stringified
                         [] d \in {"ptr_slice_int", "ptr_slice_bool", "ptr_slice_float"} -> "ErrIncompatibleTypes"   \* the test list mixes kinds
                         [] d \in {"string_value", "slice_any_value", "map_sa_value", "nil_map_sa_value"} -> "ErrIntoNonPointer"
                         [] OTHER -> "ErrIncompatibleTypes")
      [] Scalar(s) -> (CASE d = "ptr_string" -> "ok"                           \* any scalar is stringified
                         [] d = "ptr_slice_string" \/ d = "ptr_slice_any" -> "ok"   \* appended
                         [] d = "ptr_" \o s -> "ok"
                         [] d = "ptr_slice_" \o s -> "ok"
                         [] s = "int" /\ d \in {"ptr_float", "ptr_slice_float"} -> "ok"    \* an integer is a value of a float (as for yaml.v3; finding F27)
                         [] OTHER -> "ErrIncompatibleTypes")

(* ---------------- scalar steps ---------------- *)
\* NewScalarStep: the five scalar spellings; anything else is kept as an unknown step WITH a warning (never a hard error)
ScalarStepType(s) == IF s \in {"wait", "waiter"} THEN "wait" ELSE IF s \in {"block", "input", "manual"} THEN "input" ELSE "unknown"
ScalarStepWarns(s) == ScalarStepType(s) = "unknown"

(* ---------------- inline-friendly marshalling ---------------- *)
\* outline (tagged) fields win over an inline entry with the same key; yaml:"-" fields never appear
MarshalKeys(outline, inline, skipped) == (DOMAIN inline \cup DOMAIN outline) \ skipped
MarshalValue(outline, inline, k) == IF k \in DOMAIN outline THEN outline[k] ELSE inline[k]
=============================================================================
