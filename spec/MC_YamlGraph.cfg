SPECIFICATION Spec
CONSTANTS
  MaxA = 2
  MaxB = 1
  MaxR = 1
  MaxC = 1
  DoExport = FALSE
INVARIANTS InvErrorIffValueCycle InvContent InvEachNode Export
CHECK_DEADLOCK FALSE
