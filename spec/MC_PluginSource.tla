-------------------------- MODULE MC_PluginSource --------------------------
(* Exhaustive grammar for C17. *)
EXTENDS PluginSource, TLC, Json
CONSTANTS Names, RefSegs, MaxSegs, MaxRef, DoExport
VARIABLES c
SeqsBetween(S, lo, hi) == UNION {[1..k -> S] : k \in lo..hi}
\* (a trailing separator only where the source is left as written: behind a leading form, or after three or more segments)
Init == \E p \in Prefixes : \E sg \in SeqsBetween(Names, 1, MaxSegs) : \E r \in SeqsBetween(RefSegs, 0, MaxRef) : \E tr \in BOOLEAN :
            /\ tr => (p # "none" \/ Len(sg) >= 3)
            \* dot-only names ("." / "..") only as a later segment of a source that is left as written: segments are counted as WRITTEN
            /\ \A i \in 1..Len(sg) : sg[i] \in {".", ".."} => (i > 1 /\ (p # "none" \/ Len(sg) >= 3))
            /\ c = [prefix |-> p, segs |-> sg, ref |-> r, trail |-> tr]
Next == FALSE /\ c' = c
Spec == Init /\ [][Next]_c
InvImplEqualsRule == CanonImpl(c) = Canon(c)
InvIdempotent == Canon(CanonTokens(c)) = Canon(c) /\ Spell(CanonTokens(c)) = Canon(c)
Export == DoExport => PrintT("CASE " \o ToJson([prefix |-> c.prefix, segs |-> c.segs, ref |-> c.ref, trail |-> c.trail, spelled |-> Spell(c)]))
=============================================================================
