-------------------------- MODULE MC_PluginSource --------------------------
(* Exhaustive grammar for C17. *)
EXTENDS PluginSource, TLC, Json
CONSTANTS Names, RefSegs, MaxSegs, MaxRef, DoExport
VARIABLES c
SeqsBetween(S, lo, hi) == UNION {[1..k -> S] : k \in lo..hi}
Init == \E p \in Prefixes : \E sg \in SeqsBetween(Names, 1, MaxSegs) : \E r \in SeqsBetween(RefSegs, 0, MaxRef) :
            c = [prefix |-> p, segs |-> sg, ref |-> r]
Next == FALSE /\ c' = c
Spec == Init /\ [][Next]_c
InvImplEqualsRule == CanonImpl(c) = Canon(c)
InvIdempotent == Canon(CanonTokens(c)) = Canon(c) /\ Spell(CanonTokens(c)) = Canon(c)
Export == DoExport => PrintT("CASE " \o ToJson([prefix |-> c.prefix, segs |-> c.segs, ref |-> c.ref, spelled |-> Spell(c)]))
=============================================================================
