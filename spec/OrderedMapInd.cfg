CONSTANTS
  Keys = {"a", "b", "c"}
  Vals = {"u", "w"}
  MaxSlots = 6
  FixReplaceSelf = TRUE
INIT IndInit
NEXT Next
INVARIANT IndInv
