----------------------------- MODULE InterpWalk -----------------------------
(***************************************************************************)
(* C04: env interpolation reaches every string exactly once.               *)
(* Rule-shaped: XDoc(doc) is the document with EVERY string - keys as well *)
(* as values, at any depth, in every step kind - replaced by its           *)
(* single-pass expansion, except the `signature` of a step; nothing else   *)
(* changes.  D maps each string of the document to its token form.         *)
(***************************************************************************)
EXTENDS AV, Interp

\* roles: "pipeline" (root), "steps" (a step list), "step", "any"
XStr(D, mode, env, s) == IF s \in DOMAIN D THEN ExpandStr(mode, env, D[s]) ELSE s

RECURSIVE XAV(_, _, _, _, _)
XAV(D, mode, env, a, role) ==
    CASE a.t = "s" -> Str(XStr(D, mode, env, a.v))
      [] a.t = "q" -> [t |-> "q", e |-> [i \in 1..Len(a.e) |-> XAV(D, mode, env, a.e[i], IF role = "steps" THEN "step" ELSE "any")]]
      [] a.t = "m" ->
            [t |-> "m", kv |-> [i \in 1..Len(a.kv) |->
                LET k == a.kv[i][1]
                    v == a.kv[i][2]
                IN IF role = "step" /\ k = "signature" THEN <<k, v>>                   \* signatures are left untouched
                   ELSE IF role \in {"pipeline", "step"} /\ k = "steps" THEN <<k, XAV(D, mode, env, v, "steps")>>
                   ELSE <<XStr(D, mode, env, k), XAV(D, mode, env, v, "any")>>]]
      [] OTHER -> a

\* every string occurrence (keys and values) that interpolation must visit
RECURSIVE Strs(_, _)
Strs(a, role) ==
    CASE a.t = "s" -> <<a.v>>
      [] a.t = "q" -> Flatten([i \in 1..Len(a.e) |-> Strs(a.e[i], IF role = "steps" THEN "step" ELSE "any")])
      [] a.t = "m" ->
            Flatten([i \in 1..Len(a.kv) |->
                LET k == a.kv[i][1]
                    v == a.kv[i][2]
                IN IF role = "step" /\ k = "signature" THEN <<>>
                   ELSE IF role \in {"pipeline", "step"} /\ k = "steps" THEN Strs(v, "steps")
                   ELSE <<k>> \o Strs(v, "any")])
      [] OTHER -> <<>>
Occurrences(seq, s) == Cardinality({i \in 1..Len(seq) : seq[i] = s})

(* ---------- the traversal as a state machine (for the bounded model) ---------- *)
\* One pass over a token string: references become their values, an escape
\* becomes the text "$v" - which READS as a reference if it were scanned again.
Pass1(mode, env, segs) ==
    [i \in 1..Len(segs) |->
        IF segs[i].t = "esc" THEN Ref(segs[i].v, "plain")
        ELSE Lit(ExpandTok(mode, env, segs[i]))]
=============================================================================
