------------------------------ MODULE YamlGraph ------------------------------
(***************************************************************************)
(* C07: YAML anchors, aliases and `<<` merges, from the node graph up.     *)
(*                                                                         *)
(* A graph G maps mapping-node names to sequences of entries               *)
(*     [m |-> BOOLEAN (a `<<` entry), k |-> key, v |-> value]              *)
(* and values are small trees:                                             *)
(*     [t |-> "s", s]   scalar                                             *)
(*     [t |-> "a", n]   alias to the mapping node n                        *)
(*     [t |-> "n", n]   the mapping node n itself, inline (its definition) *)
(*     [t |-> "q", e]   sequence of values                                 *)
(*     [t |-> "sd"]     the ANCHORED sequence G.S, defined here            *)
(*     [t |-> "sa"]     an alias to the anchored sequence G.S              *)
(* G.S is a sequence of values that may contain [t |-> "sa"] itself: a     *)
(* cycle on which no mapping node lies.                                    *)
(*                                                                         *)
(* DecNode  - implementation-shaped: decodeYAML with its `seen` path set,  *)
(*            rangeYAMLMapImpl with its `merged` set (one per top-level    *)
(*            ranged mapping, shared through nested merges, never          *)
(*            cleared), the two passes, and the chain of skipKeys          *)
(*            wrappers (a stack of key sets);                              *)
(* SemNode  - rule-shaped: the YAML merge rules (explicit keys beat merged *)
(*            keys, earlier sources beat later ones, merged keys stand     *)
(*            where the merge key stood, duplicates keep the first         *)
(*            position and the last value, an alias denotes a copy), a     *)
(*            value cycle is an error, a merge cycle contributes nothing.  *)
(***************************************************************************)
EXTENDS AV, OrderedMap

ERR == [err |-> TRUE, v |-> Null]
OK(v) == [err |-> FALSE, v |-> v]

OwnKeys(es) == {es[i].k : i \in {j \in 1..Len(es) : ~es[j].m}}

(* =============== implementation-shaped =============== *)
\* ctx: [merged, stack (key sets of the skipKeys wrappers, innermost last), out (yields), bad (cannot range)]
RECURSIVE Emit(_, _, _, _)
Emit(ctx, level, k, v) ==
    IF level = 0 THEN [ctx EXCEPT !.out = Append(@, [k |-> k, v |-> v])]
    ELSE IF k \in ctx.stack[level] THEN ctx
    ELSE Emit([ctx EXCEPT !.stack[level] = @ \cup {k}], level - 1, k, v)

RECURSIVE RangeNode(_, _, _, _), RangeVal(_, _, _, _), RangeEntries(_, _, _, _, _), RangeSeq(_, _, _, _, _)
RangeNode(G, ctx, level, name) ==
    IF name \in ctx.merged THEN ctx                                   \* already merged into this top-level map
    ELSE LET c1 == [ctx EXCEPT !.merged = @ \cup {name},
                               !.stack = Append(SubSeq(@, 1, level), OwnKeys(G[name]))]   \* pass 1: this level's keys
             c2 == RangeEntries(G, c1, level, G[name], 1)              \* pass 2
         IN [c2 EXCEPT !.stack = SubSeq(@, 1, level)]
RangeEntries(G, ctx, level, es, i) ==
    IF i > Len(es) THEN ctx
    ELSE IF es[i].m THEN RangeEntries(G, RangeVal(G, ctx, level + 1, es[i].v), level, es, i + 1)
    ELSE RangeEntries(G, Emit(ctx, level, es[i].k, es[i].v), level, es, i + 1)
RangeVal(G, ctx, level, v) ==
    CASE v.t \in {"a", "n"} -> RangeNode(G, ctx, level, v.n)
      [] v.t = "q" -> RangeSeq(G, ctx, level, v.e, 1)
      [] v.t \in {"sd", "sa"} ->                                       \* the `merged` guard covers EVERY node, sequences too
            (IF "S" \in ctx.merged THEN ctx ELSE RangeSeq(G, [ctx EXCEPT !.merged = @ \cup {"S"}], level, G.S, 1))
      [] OTHER -> [ctx EXCEPT !.bad = TRUE]                           \* cannot range over a scalar
RangeSeq(G, ctx, level, e, i) ==
    IF i > Len(e) THEN ctx ELSE RangeSeq(G, RangeVal(G, ctx, level, e[i]), level, e, i + 1)

Yields(G, name) == RangeNode(G, [merged |-> {}, stack |-> <<>>, out |-> <<>>, bad |-> FALSE], 0, name)

RECURSIVE DecNode(_, _, _), DecVal(_, _, _), DecPairs(_, _, _, _, _), DecSeq(_, _, _, _, _)
DecNode(G, seen, name) ==
    IF name \in seen THEN ERR                                          \* "infinite recursion"
    ELSE LET y == Yields(G, name)
         IN IF y.bad THEN ERR ELSE DecPairs(G, seen \cup {name}, y.out, 1, <<>>)
DecPairs(G, seen, ys, i, acc) ==                                       \* m.Set(key, decode(value)) in yield order
    IF i > Len(ys) THEN OK([t |-> "m", kv |-> [j \in 1..Len(acc) |-> <<acc[j].k, acc[j].v>>]])
    ELSE LET d == DecVal(G, seen, ys[i].v)
         IN IF d.err THEN ERR ELSE DecPairs(G, seen, ys, i + 1, LSet(acc, ys[i].k, d.v))
DecVal(G, seen, v) ==
    CASE v.t = "s" -> OK(Str(v.s))
      [] v.t \in {"a", "n"} -> DecNode(G, seen, v.n)
      [] v.t = "q" -> DecSeq(G, seen, v.e, 1, <<>>)
      [] v.t \in {"sd", "sa"} -> (IF "S" \in seen THEN ERR ELSE DecSeq(G, seen \cup {"S"}, G.S, 1, <<>>))   \* as a VALUE: a sequence; itself inside itself is a value cycle
DecSeq(G, seen, e, i, acc) ==
    IF i > Len(e) THEN OK([t |-> "q", e |-> acc])
    ELSE LET d == DecVal(G, seen, e[i]) IN IF d.err THEN ERR ELSE DecSeq(G, seen, e, i + 1, Append(acc, d.v))

(* =============== rule-shaped =============== *)
\* the mappings a merge value names, in order; the anchored sequence contributes its elements ONCE (a cycle through it adds nothing)
RECURSIVE SourcesV(_, _, _), SrcSeqV(_, _, _, _)
SourcesV(G, v, inS) == CASE v.t \in {"a", "n"} -> <<v.n>> [] v.t = "q" -> SrcSeqV(G, v.e, 1, inS)
                         [] v.t \in {"sd", "sa"} -> (IF inS THEN <<>> ELSE SrcSeqV(G, G.S, 1, TRUE))
                         [] OTHER -> <<>>
SrcSeqV(G, e, i, inS) == IF i > Len(e) THEN <<>> ELSE SourcesV(G, e[i], inS) \o SrcSeqV(G, e, i + 1, inS)
Sources(G, v) == SourcesV(G, v, FALSE)
RECURSIVE MergeOKV(_, _, _)
MergeOKV(G, v, inS) == CASE v.t \in {"a", "n"} -> TRUE [] v.t = "q" -> \A i \in 1..Len(v.e) : MergeOKV(G, v.e[i], inS)
                         [] v.t \in {"sd", "sa"} -> (inS \/ \A i \in 1..Len(G.S) : MergeOKV(G, G.S[i], TRUE))
                         [] OTHER -> FALSE
MergeOK(G, v) == MergeOKV(G, v, FALSE)

\* resolved entries (key, value) of mapping `name`; `visiting` = mappings being merged (merge cycles add nothing)
RECURSIVE Entries(_, _, _), EntLoop(_, _, _, _, _), SrcLoop(_, _, _, _, _, _), AddAll(_, _, _, _)
Entries(G, name, visiting) == EntLoop(G, name, visiting \cup {name}, 1, <<>>)
EntLoop(G, name, visiting, i, acc) ==
    LET es == G[name] IN
    IF i > Len(es) THEN acc
    ELSE IF ~es[i].m THEN EntLoop(G, name, visiting, i + 1, LSet(acc, es[i].k, es[i].v))         \* explicit: first position, last value
    ELSE EntLoop(G, name, visiting, i + 1, SrcLoop(G, name, visiting, Sources(G, es[i].v), 1, acc)) \* merged keys stand here
SrcLoop(G, name, visiting, srcs, j, acc) ==
    IF j > Len(srcs) THEN acc
    ELSE IF srcs[j] \in visiting THEN SrcLoop(G, name, visiting, srcs, j + 1, acc)               \* merge cycle: nothing
    ELSE SrcLoop(G, name, visiting, srcs, j + 1, AddAll(OwnKeys(G[name]), Entries(G, srcs[j], visiting), 1, acc))
AddAll(own, src, x, acc) ==                                            \* explicit keys and earlier sources win
    IF x > Len(src) THEN acc
    ELSE IF src[x].k \in own \/ LHas(acc, src[x].k) THEN AddAll(own, src, x + 1, acc)
    ELSE AddAll(own, src, x + 1, Append(acc, src[x]))

RECURSIVE SemNode(_, _, _), SemVal(_, _, _), SemPairs(_, _, _, _, _), SemSeq(_, _, _, _, _)
WellMerged(G, name) == \A i \in 1..Len(G[name]) : G[name][i].m => MergeOK(G, G[name][i].v)
SemNode(G, path, name) ==
    IF name \in path THEN ERR                                          \* a value cycle
    ELSE SemPairs(G, path \cup {name}, Entries(G, name, {}), 1, <<>>)
SemPairs(G, path, es, i, acc) ==
    IF i > Len(es) THEN OK([t |-> "m", kv |-> acc])
    ELSE LET d == SemVal(G, path, es[i].v) IN IF d.err THEN ERR ELSE SemPairs(G, path, es, i + 1, Append(acc, <<es[i].k, d.v>>))
SemVal(G, path, v) ==
    CASE v.t = "s" -> OK(Str(v.s))
      [] v.t \in {"a", "n"} -> SemNode(G, path, v.n)
      [] v.t = "q" -> SemSeq(G, path, v.e, 1, <<>>)
      [] v.t \in {"sd", "sa"} -> (IF "S" \in path THEN ERR ELSE SemSeq(G, path \cup {"S"}, G.S, 1, <<>>))
SemSeq(G, path, e, i, acc) ==
    IF i > Len(e) THEN OK([t |-> "q", e |-> acc])
    ELSE LET d == SemVal(G, path, e[i]) IN IF d.err THEN ERR ELSE SemSeq(G, path, e, i + 1, Append(acc, d.v))
=============================================================================
