SPECIFICATION Spec
CONSTANTS
  DimSets <- DimSetsSmall
  ValLists <- ValLists3
  AdjVals = {"u", "w"}
  PermVals = {"u", "v", "w"}
  MaxAdj = 2
  Skips = {"absent", "false", "true", "string"}
  ExtraDim = "z"
  DoExport = FALSE
INVARIANTS InvAlgorithmEqualsRule Export
CHECK_DEADLOCK FALSE
