---------------------------- MODULE Trace_YamlGraph ----------------------------
(* C07 (and, with ORDER = TRUE, the merge-position clause of C08): every        *)
(* recorded decode of an anchor/alias/merge graph by the real code - through    *)
(* ordered.DecodeYAML on a built node graph, on YAML text, through              *)
(* ordered.Map.UnmarshalYAML and through pipeline.Parse - is judged by the      *)
(* rule-shaped SemNode.                                                         *)
EXTENDS YamlGraph, Json, IOUtils, TLC
CONSTANT ORDER
Trace == ndJsonDeserialize(IOEnv.VERIF_TRACE)
N == Len(Trace)
VARIABLES l, bad, mach
vars == <<l, bad, mach>>
G(e) == [n \in DOMAIN e.c.g |-> e.c.g[n]]
\* "ladder" graphs (every mapping reachable along exponentially many merge paths; the rule-shaped Entries would walk them
\* all): judged on time and on the key set only - every level's key exactly once
TimeOnly(e) == "timeonly" \in DOMAIN e.c /\ e.c.timeonly
LadderOK(e) == /\ ~e.panic /\ ~e.timeout /\ ~e.crash /\ ~e.err
               /\ e.result.t = "m" /\ Len(e.result.kv) = Len(e.c.wantkeys)
               /\ {e.result.kv[i][1] : i \in 1..Len(e.result.kv)} = {e.c.wantkeys[i] : i \in 1..Len(e.c.wantkeys)}
EventOK(e) ==
    IF TimeOnly(e) THEN LadderOK(e) ELSE
    LET sem == SemNode(G(e), {}, e.c.root) IN
    /\ ~e.panic /\ ~e.timeout /\ ~e.crash                   \* bounded time, no panic, no stack overflow
    /\ e.err = sem.err                                       \* rejected exactly when aliases form a value cycle
    /\ ~sem.err => /\ (IF ORDER THEN EqOrd(e.result, sem.v) ELSE EqUnord(e.result, sem.v))
                   /\ e.indep                                \* every alias is an independent copy
Init == l = 1 /\ bad = {} /\ mach = {}
Next == /\ l <= N
        /\ l' = l + 1
        /\ mach' = mach
        /\ bad' = IF EventOK(Trace[l]) THEN bad ELSE bad \cup {l}
Spec == Init /\ [][Next]_vars
Report == (l = N + 1) => PrintT("VERIF_DONE " \o ToJson([n |-> N, bad |-> bad, mach |-> mach]))
=============================================================================
