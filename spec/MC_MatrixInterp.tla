--------------------------- MODULE MC_MatrixInterp ---------------------------
(* C12 bounded model: token strings x permutations.  The left-to-right scan    *)
(* (implementation-shaped) equals the per-token rule; a value that looks like  *)
(* a token is never replaced again; unknown dimension <=> failure.  Every      *)
(* (position class, string, permutation) is exported for replay.               *)
EXTENDS MatrixInterp, TLC, Json
CONSTANTS MaxToks, DoExport
VARIABLES c
Toks == { MLit("x "), MLit("-"), MTok("a", "", ""), MTok("a", " ", "\t"), MTok("b", "  ", ""), MTok("", "", " "), MTok("zz", "", ""),
          MTok("a.b", "", ""), MTok("a-b", " ", " "), MTok("_", "", ""), MTok(".a", "", ""), MTok("a", "\n  ", "\n"),      \* a dimension NAMED ".a": {{matrix..a}}
          MNear("{{matrix"), MNear("{matrix}"), MNear("{{ matrixx }}"), MNear("{{matrix.}}"), MNear("{{matrix .a}}"),
          MNear("{{ matrix.a b }}"), MNear("{{Matrix}}"), MNear("{{ matrix.a }") }
Perms == { ("a" :> "VA") @@ ("b" :> "VB"),
           ("a" :> "{{matrix.b}}") @@ ("b" :> "VB"),              \* a value that itself looks like a token
           ("a" :> "{{ matrix.a }}") @@ ("b" :> ""),
           ("" :> "ANON"), ("" :> "{{matrix}}"), ("" :> "$HOME/bin${1}$$"),
           ("a.b" :> "DOT") @@ ("a-b" :> "DASH") @@ ("_" :> "US"),
           ("a" :> "VA") @@ (".a" :> "DOTA") }                    \* names that differ by a leading dot are different dimensions
Classes == {"command", "label", "key", "envname", "envval", "pluginsrc", "plugincfgkey", "plugincfgval", "unkkey", "unkval",
            "matrixval", "adjwith", "sigvalue"}
Init == \E n \in 1..MaxToks : \E s \in [1..n -> Toks] : \E p \in Perms : \E cl \in Classes :
           c = [class |-> cl, toks |-> s, p |-> p]
Next == FALSE /\ c' = c
Spec == Init /\ [][Next]_c
Scan == MScan(c.toks, c.p, "", <<>>)
InvScanEqualsRule == Scan.s = MReplace(c.toks, c.p) /\ Scan.err = MUnknown(c.toks, c.p)
\* single pass: re-running the rule on the TOKENS of the result is never part of the definition;
\* literal and near-miss text always survives verbatim
InvNoTokens == (\A i \in 1..Len(c.toks) : c.toks[i].t # "tok") => MReplace(c.toks, c.p) = MSpell(c.toks)
Export == DoExport => PrintT("CASE " \o ToJson([class |-> c.class, toks |-> c.toks, p |-> c.p, spelled |-> MSpell(c.toks)]))
=============================================================================
