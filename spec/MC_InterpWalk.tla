---------------------------- MODULE MC_InterpWalk ----------------------------
(***************************************************************************)
(* C04 bounded model: N string positions (map keys and values), visited    *)
(* in ANY order (Go's map iteration order is not fixed).  TLC checks that  *)
(* no position is expanded twice, that at the end every position holds     *)
(* exactly one pass of expansion, and that the end state does not depend   *)
(* on the order (determinism).  RevisitRenamedKeys = TRUE models the code  *)
(* at the pinned commit, where a key renamed during `range` over a Go map  *)
(* may be yielded again: TLC then finds the double expansion.              *)
(***************************************************************************)
EXTENDS InterpWalk, TLC
CONSTANTS N, RevisitRenamedKeys
VARIABLES orig, kind, cur, visited
vars == <<orig, kind, cur, visited>>
Pos == 1..N
Env == ("A" :> "va") @@ ("Q" :> "BAD")
Pool == { <<Lit("x-"), Ref("A", "brace")>>, <<Esc("Q", "dd")>>, <<Ref("A", "plain"), Lit("."), Esc("Q", "bs")>>,
          <<Lit("plain")>>, <<Dflt("U", "d", "unset")>> }
Init == /\ orig \in [Pos -> Pool] /\ kind \in [Pos -> {"key", "value"}]
        /\ cur = orig /\ visited = [p \in Pos |-> 0]
Visit(p) ==
    /\ \/ visited[p] = 0
       \/ RevisitRenamedKeys /\ kind[p] = "key" /\ visited[p] = 1 /\ Spell(cur[p]) # Spell(orig[p])   \* the renamed key is met again
    /\ cur' = [cur EXCEPT ![p] = Pass1("exact", Env, cur[p])]
    /\ visited' = [visited EXCEPT ![p] = @ + 1]
    /\ UNCHANGED <<orig, kind>>
Next == \E p \in Pos : Visit(p)
Spec == Init /\ [][Next]_vars /\ WF_vars(Next)
Done == \A p \in Pos : visited[p] >= 1 /\ ~ENABLED Visit(p)
InvOnce == \A p \in Pos : visited[p] <= 1
InvSinglePass == \A p \in Pos : visited[p] >= 1 => Spell(cur[p]) = ExpandStr("exact", Env, orig[p])
InvUntouched == \A p \in Pos : visited[p] = 0 => cur[p] = orig[p]
Termination == <>Done
=============================================================================
