------------------------------- MODULE Sharing -------------------------------
(***************************************************************************)
(* C19: the sharing discipline the library must support.                   *)
(* Objects are owned by one goroutine until they are published; a          *)
(* published object is frozen.  Mutate needs ownership of an unpublished   *)
(* object; Observe (lookups, iteration, equality, marshalling, signing,    *)
(* verifying, canonical source, matrix validation) is allowed to anyone on *)
(* a published object and to the owner on its own, and NEVER changes the   *)
(* representation `rep` of the observed object; its result is a function   *)
(* of the abstract value only.  There is no action by which one goroutine  *)
(* changes what another can see.                                           *)
(***************************************************************************)
EXTENDS Integers, FiniteSets, TLC
CONSTANTS G, O, MaxVer
VARIABLES owner, frozen, rep, ver, lastObs
vars == <<owner, frozen, rep, ver, lastObs>>
Init == /\ owner \in [O -> G] /\ frozen = [o \in O |-> FALSE]
        /\ rep = [o \in O |-> 0] /\ ver = [o \in O |-> 0] /\ lastObs = [g \in G |-> [o |-> CHOOSE x \in O : TRUE, v |-> 0]]
Mutate(g, o) == /\ owner[o] = g /\ ~frozen[o] /\ ver[o] < MaxVer
                /\ ver' = [ver EXCEPT ![o] = @ + 1] /\ rep' = [rep EXCEPT ![o] = @ + 1]
                /\ UNCHANGED <<owner, frozen, lastObs>>
Publish(g, o) == /\ owner[o] = g /\ ~frozen[o] /\ frozen' = [frozen EXCEPT ![o] = TRUE] /\ UNCHANGED <<owner, rep, ver, lastObs>>
Observe(g, o) == /\ (frozen[o] \/ owner[o] = g)
                 /\ lastObs' = [lastObs EXCEPT ![g] = [o |-> o, v |-> ver[o]]]      \* the result depends on the abstract value only
                 /\ UNCHANGED <<owner, frozen, rep, ver>>                            \* observers do not mutate
Next == \E g \in G, o \in O : Mutate(g, o) \/ Publish(g, o) \/ Observe(g, o)
Spec == Init /\ [][Next]_vars
\* a frozen object's representation never changes again
FrozenStable == [][\A o \in O : frozen[o] => rep'[o] = rep[o]]_vars
\* what anyone observes of a frozen object is its value at publication
ObservedIsCurrent == \A g \in G : frozen[lastObs[g].o] => lastObs[g].v <= ver[lastObs[g].o]
RepTracksValue == \A o \in O : rep[o] = ver[o]
=============================================================================
