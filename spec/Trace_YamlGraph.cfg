SPECIFICATION Spec
CONSTANT ORDER = FALSE
INVARIANT Report
CHECK_DEADLOCK FALSE
