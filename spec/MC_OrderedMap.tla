--------------------------- MODULE MC_OrderedMap ---------------------------
(***************************************************************************)
(* Bounded model of C05.  The implementation-shaped map `m` and the        *)
(* list-of-pairs oracle `pairs` move in lockstep under every mutator       *)
(* instance; TLC checks the refinement, the representation invariant,      *)
(* every observer, reflexivity of Equal and the rename-inside-Range        *)
(* sub-machine in every reachable state.  `hist` (excluded from the VIEW)  *)
(* is the operation history that reaches the state; every distinct state   *)
(* is exported once, with its history, for replay into the real code.      *)
(***************************************************************************)
EXTENDS OrderedMapImpl, Json

CONSTANTS Keys, Vals, MaxOps, DoExport

VARIABLES m, pairs, hist, init

vars == <<m, pairs, hist, init>>
view == <<m, pairs, init, Len(hist)>>   \* depth in the view: the bound is then exact under parallel BFS

SetOps == {[op |-> "set", k |-> k, v |-> v] : k \in Keys, v \in Vals}
RepOps == {[op |-> "replace", old |-> o, new |-> n, v |-> v] : o \in Keys, n \in Keys, v \in Vals}
DelOps == {[op |-> "delete", k |-> k] : k \in Keys}
Ops == SetOps \cup RepOps \cup DelOps

IApply(mm, o) ==
    CASE o.op = "set"     -> ISet(mm, o.k, o.v)
      [] o.op = "replace" -> IReplace(mm, o.old, o.new, o.v)
      [] o.op = "delete"  -> IDelete(mm, o.k)
AApply(p, o) ==
    CASE o.op = "set"     -> ASet(p, o.k, o.v)
      [] o.op = "replace" -> AReplace(p, o.old, o.new, o.v)
      [] o.op = "delete"  -> ADelete(p, o.k)

\* Mutators on a nil *Map are not actions (documented to panic like Go's map);
\* Delete on nil is.
Enabled(o) == ~m.nil \/ o.op = "delete"

Init == /\ init \in {"nil", "new", "zero"}
        /\ m = (IF init = "nil" THEN NilMap ELSE EmptyMap)
        /\ pairs = (IF init = "nil" THEN NIL ELSE AV(<<>>))
        /\ hist = <<>>

Next == \E o \in Ops :
          /\ Len(hist) < MaxOps
          /\ Enabled(o)
          /\ m' = IApply(m, o)
          /\ pairs' = AApply(pairs, o)
          /\ hist' = Append(hist, o)
          /\ UNCHANGED init

Spec == Init /\ [][Next]_vars

\* ----- what TLC checks in every reachable state -----
InvConsistent == Consistent(m)
InvRefines == Abs(m) = pairs
InvObservers ==
    /\ ILen(m) = ALen(pairs)
    /\ IIsZero(m) = AIsZero(pairs)
    /\ IRange(m) = ARange(pairs)
    /\ \A k \in Keys : IGet(m, k) = AGet(pairs, k) /\ IContains(m, k) = AContains(pairs, k)
InvEqualReflexive == IEqual(m, m) = "true"

RenameFns == [Keys -> Keys]
FnOf(g) == [k \in Keys |-> [k |-> g[k], v |-> "r"]]
InvRangeRename ==
    \A g \in RenameFns :
        LET i == IRangeRename(m, FnOf(g))
            a == ARangeRename(pairs, FnOf(g))
        IN /\ Abs(i.m) = a.pairs
           /\ i.yields = a.yields
           /\ Consistent(i.m)

\* ----- export (one line per distinct state; TRUE always) -----
OpJ(o) == IF o.op = "replace" THEN <<"replace", o.old, o.new, o.v>>
          ELSE IF o.op = "set" THEN <<"set", o.k, o.v>> ELSE <<"delete", o.k>>
PairsJ(p) == [nil |-> p.nil, kv |-> [i \in 1..Len(p.kv) |-> <<p.kv[i].k, p.kv[i].v>>]]
Export ==
    DoExport =>
      PrintT("CASE " \o ToJson([init  |-> init,
                                hist  |-> [i \in 1..Len(hist) |-> OpJ(hist[i])],
                                pairs |-> PairsJ(pairs),
                                slots |-> [i \in 1..Len(m.items) |-> <<m.items[i].k, m.items[i].v, IF m.items[i].d THEN "1" ELSE "0">>]]))
=============================================================================
