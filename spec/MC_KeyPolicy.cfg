SPECIFICATION Spec
CONSTANTS
  SigAlgs = {"ES256", "ES256K", "ES384", "ES512", "EdDSA", "HS256", "HS384", "HS512", "PS256", "PS384", "PS512", "RS256", "RS384", "RS512", "none"}
  EncAlgs = {"A128GCMKW", "A128KW", "A192GCMKW", "A192KW", "A256GCMKW", "A256KW", "ECDH-ES", "ECDH-ES+A128KW", "ECDH-ES+A192KW", "ECDH-ES+A256KW", "PBES2-HS256+A128KW", "PBES2-HS384+A192KW", "PBES2-HS512+A256KW", "RSA-OAEP", "RSA-OAEP-256", "RSA-OAEP-384", "RSA-OAEP-512", "RSA1_5", "dir"}
  DoExport = TRUE
  MaxSet = 3
INVARIANTS InvValidate InvLoadKey InvNoSymmetric Export
CHECK_DEADLOCK FALSE
