--------------------------- MODULE Trace_SignSteps ---------------------------
(* C06 trace validation: the real SignSteps on a step tree; per command step   *)
(* (depth-first order) whether it carries a signature, its algorithm, its      *)
(* signed-field list, and whether the real Verify accepts it; plus whether     *)
(* anything other than signatures changed and whether the caller's env map     *)
(* changed.                                                                    *)
EXTENDS Signing, Json, IOUtils
Trace == ndJsonDeserialize(IOEnv.VERIF_TRACE)
N == Len(Trace)
VARIABLES l, bad, mach
vars == <<l, bad, mach>>
RECURSIVE TreeOf(_)
TreeOf(l0) == [i \in 1..Len(l0) |-> [kind |-> l0[i].kind, env |-> {l0[i].env[j] : j \in 1..Len(l0[i].env)}, kids |-> TreeOf(l0[i].kids)]]
NoDup(s) == \A i, j \in 1..Len(s) : i # j => s[i] # s[j]
EventOK(e) ==
    LET tree == TreeOf(e.c.tree)
        cmds == CommandNodes(tree)
        penvNames == DOMAIN e.c.penv
    IN /\ ~e.panic
       /\ e.unchanged /\ e.envunchanged                               \* nothing but signatures changes; caller's env untouched
       /\ Len(e.cmds) = Len(cmds)
       /\ IF HasUnknown(tree) THEN e.err                               \* refuses rather than succeeds
          ELSE /\ ~e.err
               /\ \A i \in 1..Len(cmds) :
                     /\ e.cmds[i].signed
                     /\ e.cmds[i].alg = e.c.alg                        \* names the key's algorithm
                     /\ {e.cmds[i].fields[j] : j \in 1..Len(e.cmds[i].fields)} = WantFields(cmds[i], penvNames)
                     /\ NoDup(e.cmds[i].fields) /\ e.cmds[i].sorted    \* exactly the rule's list, sorted
                     /\ e.cmds[i].verifies                             \* and it verifies
Init == l = 1 /\ bad = {} /\ mach = {}
Next == /\ l <= N
        /\ l' = l + 1
        /\ mach' = mach
        /\ bad' = IF EventOK(Trace[l]) THEN bad ELSE bad \cup {l}
Spec == Init /\ [][Next]_vars
Report == (l = N + 1) => PrintT("VERIF_DONE " \o ToJson([n |-> N, bad |-> bad, mach |-> mach]))
=============================================================================
