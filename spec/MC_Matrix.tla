----------------------------- MODULE MC_Matrix -----------------------------
(* Small-scope exhaustive table for C11: matrices x candidate permutations. *)
EXTENDS Matrix, TLC, Json

CONSTANTS DimSets,      \* the dimension sets a setup may have, e.g. {{""}, {"a"}, {"a","b"}, {}}
          ValLists,     \* value lists of a setup dimension
          AdjVals, PermVals, MaxAdj, Skips, ExtraDim, DoExport

VARIABLES c

\* constant values that a .cfg file cannot spell (tuples, nested sets); selected with `<-`
ValLists3 == {<<>>, <<"u">>, <<"u", "v">>}
ValLists2 == {<<>>, <<"u", "v">>}
DimSetsSmall == {{""}, {"a"}, {}}
DimSetsTwo == {{"a", "b"}}
DimSetsThree == {{"a", "b", "c"}}

Fns(D, V) == [D -> V]
\* domains an adjustment / a permutation may have relative to the setup's D
Variants(D) == {D} \cup {D \ {d} : d \in D} \cup {D \cup {ExtraDim}} \cup {(D \ {d}) \cup {ExtraDim} : d \in D}
AdjsFor(D) == {[with |-> w, skip |-> s] : w \in UNION {Fns(X, AdjVals) : X \in Variants(D)}, s \in Skips}
SeqsUpTo(S, n) == UNION {[1..k -> S] : k \in 0..n}
PermsFor(D) == UNION {Fns(X, PermVals) : X \in Variants(D) \cup {{}}}

NilMatrix == [nil |-> TRUE, setup |-> <<>>, adjs |-> <<>>]

\* Init is a product of small sets (enumerated lazily by TLC), not one huge set.
Init ==
    \/ \E p \in PermsFor({""}) \cup PermsFor({"a"}) : c = [m |-> NilMatrix, p |-> p]
    \/ \E D \in DimSets :
         \E su \in Fns(D, ValLists) :
           \E ad \in SeqsUpTo(AdjsFor(D), MaxAdj) :
             \E p \in PermsFor(D) :
               c = [m |-> [nil |-> FALSE, setup |-> su, adjs |-> ad], p |-> p]
Next == FALSE /\ c' = c
Spec == Init /\ [][Next]_c

InvAlgorithmEqualsRule == (Validate(c.m, c.p) = "ok") <=> Accept(c.m, c.p)
Export == DoExport => PrintT("CASE " \o ToJson(c))
=============================================================================
