SPECIFICATION Spec
CONSTANTS
  G = {"g1", "g2", "g3"}
  O = {"o1", "o2", "o3"}
  MaxVer = 2
INVARIANTS ObservedIsCurrent RepTracksValue
PROPERTY FrozenStable
CHECK_DEADLOCK FALSE
