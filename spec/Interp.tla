------------------------------- MODULE Interp -------------------------------
(***************************************************************************)
(* Environment-variable interpolation (C10 env block, C04 traversal).      *)
(*                                                                         *)
(* TLC cannot look inside strings, so an interpolatable string is a        *)
(* sequence of TOKENS; its concrete spelling and its expansion are both    *)
(* built by concatenation, so the specification computes the exact         *)
(* expected output string.                                                 *)
(*   [t |-> "lit",  s]          literal text (no "$", no backslash)        *)
(*   [t |-> "ref",  v, f]       $v (f = "plain") or ${v} (f = "brace")     *)
(*   [t |-> "esc",  v, f]       $$v (f = "dd") or \$v (f = "bs"): comes    *)
(*                              out as the literal $v, never expanded      *)
(*   [t |-> "dflt", v, d, k]    ${v:-d} (k = "empty") or ${v-d} ("unset")  *)
(*   [t |-> "req",  v]          ${v?}: error when v is unset               *)
(*                                                                         *)
(* A caller environment is a function from FOLDED names to values; the     *)
(* caller's own name equality is Fold(mode, name).                         *)
(***************************************************************************)
EXTENDS OrderedMap

Lit(s) == [t |-> "lit", s |-> s]
Ref(v, f) == [t |-> "ref", v |-> v, f |-> f]
Esc(v, f) == [t |-> "esc", v |-> v, f |-> f]
Dflt(v, d, k) == [t |-> "dflt", v |-> v, d |-> d, k |-> k]
Req(v) == [t |-> "req", v |-> v]

\* Name equality of the caller: "exact", or "upper" (case-insensitive).  All names
\* in the models are upper-case except the single name "a".
Fold(mode, n) == IF mode = "upper" /\ n = "a" THEN "A" ELSE n

Has(mode, env, n) == Fold(mode, n) \in DOMAIN env
Val(mode, env, n) == IF Has(mode, env, n) THEN env[Fold(mode, n)] ELSE ""
Put(mode, env, n, v) == (Fold(mode, n) :> v) @@ env

SpellTok(x) ==
    CASE x.t = "lit" -> x.s
      [] x.t = "ref" -> (IF x.f = "plain" THEN "$" \o x.v ELSE "${" \o x.v \o "}")
      [] x.t = "esc" -> (IF x.f = "dd" THEN "$$" \o x.v ELSE "\\$" \o x.v)
      [] x.t = "dflt" -> (IF x.k = "empty" THEN "${" \o x.v \o ":-" \o x.d \o "}" ELSE "${" \o x.v \o "-" \o x.d \o "}")
      [] x.t = "req" -> "${" \o x.v \o "?}"
RECURSIVE Spell(_)
Spell(segs) == IF Len(segs) = 0 THEN "" ELSE SpellTok(Head(segs)) \o Spell(Tail(segs))

ExpandTok(mode, env, x) ==
    CASE x.t = "lit" -> x.s
      [] x.t = "ref" -> Val(mode, env, x.v)
      [] x.t = "esc" -> "$" \o x.v                                  \* single pass: the result is NOT looked at again
      [] x.t = "dflt" -> (IF x.k = "empty"
                          THEN (IF Val(mode, env, x.v) = "" THEN x.d ELSE Val(mode, env, x.v))
                          ELSE (IF Has(mode, env, x.v) THEN Val(mode, env, x.v) ELSE x.d))
      [] x.t = "req" -> Val(mode, env, x.v)
Fails(mode, env, segs) == \E i \in 1..Len(segs) : segs[i].t = "req" /\ ~Has(mode, env, segs[i].v)
RECURSIVE ExpandStr(_, _, _)
ExpandStr(mode, env, segs) == IF Len(segs) = 0 THEN "" ELSE ExpandTok(mode, env, Head(segs)) \o ExpandStr(mode, env, Tail(segs))

\* variables a token string reads (for Get traces)
Reads(segs) == [i \in {j \in 1..Len(segs) : segs[j].t \in {"ref", "dflt", "req"}} |-> segs[i].v]

(* ---------------- the pipeline env block: rule-shaped fold ---------------- *)
\* block: sequence of [k |-> segs, v |-> segs].  Entry i sees the caller env as
\* left by entries 1..i-1.  Result: [err, block (pairs of strings), env].
RECURSIVE FoldFrom(_, _, _, _, _, _)
FoldFrom(mode, prefer, block, i, env, out) ==
    IF i > Len(block) THEN [err |-> FALSE, block |-> out, env |-> env]
    ELSE LET e == block[i] IN
         IF Fails(mode, env, e.k) \/ Fails(mode, env, e.v) THEN [err |-> TRUE, block |-> out, env |-> env]
         ELSE LET nk == ExpandStr(mode, env, e.k)
                  nv == ExpandStr(mode, env, e.v)
                  env2 == IF prefer /\ Has(mode, env, nk) THEN env ELSE Put(mode, env, nk, nv)
              IN FoldFrom(mode, prefer, block, i + 1, env2, Append(out, P(nk, nv)))
FoldBlock(mode, prefer, block, env) == FoldFrom(mode, prefer, block, 1, env, <<>>)

\* the FINAL names are pairwise distinct (two entries ending under one name: which survives is not stated) and so are
\* the written ones (a mapping).  An entry whose expanded name equals a LATER entry's written name is in scope: that
\* later entry gets its own, different, final name ("$$X" then "$X") and must still be processed.
NoCollision(mode, prefer, block, env) ==
    LET r == FoldBlock(mode, prefer, block, env) IN
    /\ ~r.err
    /\ \A i, j \in 1..Len(r.block) : i # j => r.block[i].k # r.block[j].k
    /\ \A i, j \in 1..Len(block) : i # j => Spell(block[i].k) # Spell(block[j].k)
=============================================================================
