---- MODULE MC_EnvBlock_TTrace_1790565005 ----
EXTENDS Sequences, TLCExt, Toolbox, Naturals, TLC, MC_EnvBlock

_expression ==
    LET MC_EnvBlock_TEExpression == INSTANCE MC_EnvBlock_TEExpression
    IN MC_EnvBlock_TEExpression!expression
----

_trace ==
    LET MC_EnvBlock_TETrace == INSTANCE MC_EnvBlock_TETrace
    IN MC_EnvBlock_TETrace!trace
----

_inv ==
    ~(
        TLCGet("level") = Len(_TETrace)
        /\
        acc = (<<>>)
        /\
        block0 = (<<[k |-> <<[v |-> "X", t |-> "esc", f |-> "dd"]>>, v |-> <<[s |-> "1", t |-> "lit"]>>], [k |-> <<[v |-> "X", t |-> "ref", f |-> "plain"]>>, v |-> <<[v |-> "A", t |-> "esc", f |-> "dd"]>>]>>)
        /\
        cenv = (<<>>)
        /\
        prefer = (FALSE)
        /\
        err = (FALSE)
        /\
        i = (1)
        /\
        lst = (<<[k |-> "$X", v |-> "1"]>>)
        /\
        env0 = (<<>>)
        /\
        intk = ("$X")
        /\
        vd = (TRUE)
        /\
        mode = ("upper")
        /\
        pc = ("check")
        /\
        ex = (FALSE)
        /\
        nd = (TRUE)
        /\
        intv = ("1")
    )
----

_init ==
    /\ nd = _TETrace[1].nd
    /\ cenv = _TETrace[1].cenv
    /\ mode = _TETrace[1].mode
    /\ i = _TETrace[1].i
    /\ pc = _TETrace[1].pc
    /\ block0 = _TETrace[1].block0
    /\ ex = _TETrace[1].ex
    /\ lst = _TETrace[1].lst
    /\ acc = _TETrace[1].acc
    /\ env0 = _TETrace[1].env0
    /\ prefer = _TETrace[1].prefer
    /\ vd = _TETrace[1].vd
    /\ intk = _TETrace[1].intk
    /\ intv = _TETrace[1].intv
    /\ err = _TETrace[1].err
----

_next ==
    /\ \E i,j \in DOMAIN _TETrace:
        /\ \/ /\ j = i + 1
              /\ i = TLCGet("level")
        /\ nd  = _TETrace[i].nd
        /\ nd' = _TETrace[j].nd
        /\ cenv  = _TETrace[i].cenv
        /\ cenv' = _TETrace[j].cenv
        /\ mode  = _TETrace[i].mode
        /\ mode' = _TETrace[j].mode
        /\ i  = _TETrace[i].i
        /\ i' = _TETrace[j].i
        /\ pc  = _TETrace[i].pc
        /\ pc' = _TETrace[j].pc
        /\ block0  = _TETrace[i].block0
        /\ block0' = _TETrace[j].block0
        /\ ex  = _TETrace[i].ex
        /\ ex' = _TETrace[j].ex
        /\ lst  = _TETrace[i].lst
        /\ lst' = _TETrace[j].lst
        /\ acc  = _TETrace[i].acc
        /\ acc' = _TETrace[j].acc
        /\ env0  = _TETrace[i].env0
        /\ env0' = _TETrace[j].env0
        /\ prefer  = _TETrace[i].prefer
        /\ prefer' = _TETrace[j].prefer
        /\ vd  = _TETrace[i].vd
        /\ vd' = _TETrace[j].vd
        /\ intk  = _TETrace[i].intk
        /\ intk' = _TETrace[j].intk
        /\ intv  = _TETrace[i].intv
        /\ intv' = _TETrace[j].intv
        /\ err  = _TETrace[i].err
        /\ err' = _TETrace[j].err

\* Uncomment the ASSUME below to write the states of the error trace
\* to the given file in Json format. Note that you can pass any tuple
\* to `JsonSerialize`. For example, a sub-sequence of _TETrace.
    \* ASSUME
    \*     LET J == INSTANCE Json
    \*         IN J!JsonSerialize("MC_EnvBlock_TTrace_1790565005.json", _TETrace)

=============================================================================

 Note that you can extract this module `MC_EnvBlock_TEExpression`
  to a dedicated file to reuse `expression` (the module in the 
  dedicated `MC_EnvBlock_TEExpression.tla` file takes precedence 
  over the module `MC_EnvBlock_TEExpression` below).

---- MODULE MC_EnvBlock_TEExpression ----
EXTENDS Sequences, TLCExt, Toolbox, Naturals, TLC, MC_EnvBlock

expression == 
    [
        \* To hide variables of the `MC_EnvBlock` spec from the error trace,
        \* remove the variables below.  The trace will be written in the order
        \* of the fields of this record.
        nd |-> nd
        ,cenv |-> cenv
        ,mode |-> mode
        ,i |-> i
        ,pc |-> pc
        ,block0 |-> block0
        ,ex |-> ex
        ,lst |-> lst
        ,acc |-> acc
        ,env0 |-> env0
        ,prefer |-> prefer
        ,vd |-> vd
        ,intk |-> intk
        ,intv |-> intv
        ,err |-> err
        
        \* Put additional constant-, state-, and action-level expressions here:
        \* ,_stateNumber |-> _TEPosition
        \* ,_ndUnchanged |-> nd = nd'
        
        \* Format the `nd` variable as Json value.
        \* ,_ndJson |->
        \*     LET J == INSTANCE Json
        \*     IN J!ToJson(nd)
        
        \* Lastly, you may build expressions over arbitrary sets of states by
        \* leveraging the _TETrace operator.  For example, this is how to
        \* count the number of times a spec variable changed up to the current
        \* state in the trace.
        \* ,_ndModCount |->
        \*     LET F[s \in DOMAIN _TETrace] ==
        \*         IF s = 1 THEN 0
        \*         ELSE IF _TETrace[s].nd # _TETrace[s-1].nd
        \*             THEN 1 + F[s-1] ELSE F[s-1]
        \*     IN F[_TEPosition - 1]
    ]

=============================================================================



Parsing and semantic processing can take forever if the trace below is long.
 In this case, it is advised to uncomment the module below to deserialize the
 trace from a generated binary file.

\*
\*---- MODULE MC_EnvBlock_TETrace ----
\*EXTENDS IOUtils, TLC, MC_EnvBlock
\*
\*trace == IODeserialize("MC_EnvBlock_TTrace_1790565005.bin", TRUE)
\*
\*=============================================================================
\*

---- MODULE MC_EnvBlock_TETrace ----
EXTENDS TLC, MC_EnvBlock

trace == 
    <<
    ([acc |-> <<>>,block0 |-> <<[k |-> <<[v |-> "X", t |-> "esc", f |-> "dd"]>>, v |-> <<[s |-> "1", t |-> "lit"]>>], [k |-> <<[v |-> "X", t |-> "ref", f |-> "plain"]>>, v |-> <<[v |-> "A", t |-> "esc", f |-> "dd"]>>]>>,cenv |-> <<>>,prefer |-> FALSE,err |-> FALSE,i |-> 1,lst |-> <<[k |-> "$$X", v |-> "1"], [k |-> "$X", v |-> "$$A"]>>,env0 |-> <<>>,intk |-> "",vd |-> FALSE,mode |-> "upper",pc |-> "expand",ex |-> FALSE,nd |-> FALSE,intv |-> ""]),
    ([acc |-> <<>>,block0 |-> <<[k |-> <<[v |-> "X", t |-> "esc", f |-> "dd"]>>, v |-> <<[s |-> "1", t |-> "lit"]>>], [k |-> <<[v |-> "X", t |-> "ref", f |-> "plain"]>>, v |-> <<[v |-> "A", t |-> "esc", f |-> "dd"]>>]>>,cenv |-> <<>>,prefer |-> FALSE,err |-> FALSE,i |-> 1,lst |-> <<[k |-> "$$X", v |-> "1"], [k |-> "$X", v |-> "$$A"]>>,env0 |-> <<>>,intk |-> "$X",vd |-> FALSE,mode |-> "upper",pc |-> "expand",ex |-> FALSE,nd |-> TRUE,intv |-> ""]),
    ([acc |-> <<>>,block0 |-> <<[k |-> <<[v |-> "X", t |-> "esc", f |-> "dd"]>>, v |-> <<[s |-> "1", t |-> "lit"]>>], [k |-> <<[v |-> "X", t |-> "ref", f |-> "plain"]>>, v |-> <<[v |-> "A", t |-> "esc", f |-> "dd"]>>]>>,cenv |-> <<>>,prefer |-> FALSE,err |-> FALSE,i |-> 1,lst |-> <<[k |-> "$$X", v |-> "1"], [k |-> "$X", v |-> "$$A"]>>,env0 |-> <<>>,intk |-> "$X",vd |-> TRUE,mode |-> "upper",pc |-> "expand",ex |-> FALSE,nd |-> TRUE,intv |-> "1"]),
    ([acc |-> <<>>,block0 |-> <<[k |-> <<[v |-> "X", t |-> "esc", f |-> "dd"]>>, v |-> <<[s |-> "1", t |-> "lit"]>>], [k |-> <<[v |-> "X", t |-> "ref", f |-> "plain"]>>, v |-> <<[v |-> "A", t |-> "esc", f |-> "dd"]>>]>>,cenv |-> <<>>,prefer |-> FALSE,err |-> FALSE,i |-> 1,lst |-> <<[k |-> "$X", v |-> "1"]>>,env0 |-> <<>>,intk |-> "$X",vd |-> TRUE,mode |-> "upper",pc |-> "check",ex |-> FALSE,nd |-> TRUE,intv |-> "1"])
    >>
----


=============================================================================

---- CONFIG MC_EnvBlock_TTrace_1790565005 ----
CONSTANTS
    RenameInPlace = TRUE
    MaxEntries = 2
    PoolSize = 10
    DoExport = FALSE

INVARIANT
    _inv

CHECK_DEADLOCK
    \* CHECK_DEADLOCK off because of PROPERTY or INVARIANT above.
    FALSE

INIT
    _init

NEXT
    _next

CONSTANT
    _TETrace <- _trace

ALIAS
    _expression
=============================================================================
\* Generated on Mon Sep 28 03:19:36 UTC 2026