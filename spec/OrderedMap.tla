--------------------------- MODULE OrderedMap ---------------------------
(***************************************************************************)
(* The property's own oracle for ordered.Map (C05): a plain list of        *)
(* key/value pairs (or nil).  Everything here is an operator on pair       *)
(* lists so the same definitions serve the bounded model (MC_OrderedMap),  *)
(* the behaviour trace spec (Trace_OrderedMap) and other modules           *)
(* (env block C10, interpolation C04).                                     *)
(***************************************************************************)
EXTENDS Sequences, Integers, FiniteSets, TLC

NONE == [none |-> TRUE]            \* result of a failed lookup
P(k, v) == [k |-> k, v |-> v]

(* ---------------- plain lists of pairs ---------------- *)
LHas(l, k) == \E i \in 1..Len(l) : l[i].k = k
LIndexOf(l, k) == CHOOSE i \in 1..Len(l) : l[i].k = k
LKeys(l) == {l[i].k : i \in 1..Len(l)}
LGet(l, k) == IF LHas(l, k) THEN [none |-> FALSE, v |-> l[LIndexOf(l, k)].v] ELSE NONE

LSet(l, k, v) ==
    IF LHas(l, k)
    THEN [i \in 1..Len(l) |-> IF l[i].k = k THEN P(k, v) ELSE l[i]]
    ELSE Append(l, P(k, v))

\* keep position `keep`, drop every other entry keyed n
RemoveOthers(l, n, keep) ==
    LET idx == {i \in 1..Len(l) : i = keep \/ l[i].k # n}
        F[i \in 0..Len(l)] ==
            IF i = 0 THEN <<>>
            ELSE IF i \in idx THEN Append(F[i-1], l[i]) ELSE F[i-1]
    IN F[Len(l)]

\* Replace(old, new, v): reuse old's position (else append); any OTHER entry
\* keyed new disappears.
LReplace(l, o, n, v) ==
    LET hasOld == LHas(l, o)
        pos  == IF hasOld THEN LIndexOf(l, o) ELSE Len(l) + 1
        base == IF hasOld
                THEN [i \in 1..Len(l) |-> IF i = pos THEN P(n, v) ELSE l[i]]
                ELSE Append(l, P(n, v))
    IN RemoveOthers(base, n, pos)

LDelete(l, k) == SelectSeq(l, LAMBDA e : e.k # k)

\* Renames from inside an iteration callback: the callback renames the entry
\* just yielded, Replace(k, f[k].k, f[k].v).  Entries carry their snapshot
\* position as identity; an entry removed by an earlier collision is no longer
\* visited.  Result: [pairs |-> final list, yields |-> what the callback saw].
LRangeRename(l, f) ==
    LET n == Len(l)
        tagged == [i \in 1..n |-> [id |-> i, k |-> l[i].k, v |-> l[i].v]]
        PosOf(t, id) == CHOOSE j \in 1..Len(t) : t[j].id = id
        HasId(t, id) == \E j \in 1..Len(t) : t[j].id = id
        Step(t, id) ==
            LET j  == PosOf(t, id)
                nk == f[t[j].k].k
                nv == f[t[j].k].v
                t1 == [x \in 1..Len(t) |-> IF x = j THEN [id |-> id, k |-> nk, v |-> nv] ELSE t[x]]
                keepIdx == {x \in 1..Len(t1) : x = j \/ t1[x].k # nk}
                G[x \in 0..Len(t1)] ==
                    IF x = 0 THEN <<>>
                    ELSE IF x \in keepIdx THEN Append(G[x-1], t1[x]) ELSE G[x-1]
            IN G[Len(t1)]
        \* NB: bind R[i-1] once (LET values are cached; repeated R[i-1] would be exponential)
        R[i \in 0..n] ==
            IF i = 0 THEN [t |-> tagged, y |-> <<>>]
            ELSE LET prev == R[i-1] IN
                 IF HasId(prev.t, i)
                 THEN LET j == PosOf(prev.t, i)
                      IN [t |-> Step(prev.t, i),
                          y |-> Append(prev.y, P(prev.t[j].k, prev.t[j].v))]
                 ELSE prev
        final == R[n]
    IN IF n = 0 THEN [pairs |-> l, yields |-> <<>>]
       ELSE [pairs  |-> [x \in 1..Len(final.t) |-> P(final.t[x].k, final.t[x].v)],
             yields |-> final.y]

(* ---------------- map values: a list, or nil ---------------- *)
\* A nil *Map is a DISTINCT abstract value: the code distinguishes it
\* (MarshalJSON null vs {}, ToMap nil vs empty, Equal(nil, empty) = false).
AV(l) == [nil |-> FALSE, kv |-> l]
NIL == [nil |-> TRUE, kv |-> <<>>]

\* observers
ALen(p) == Len(p.kv)
AIsZero(p) == Len(p.kv) = 0
AGet(p, k) == LGet(p.kv, k)
AContains(p, k) == LHas(p.kv, k)
ARange(p) == p.kv                  \* in-order iteration yields exactly the list
AEqual(p, q) == p = q              \* NIL equals only NIL; otherwise keys, values, order

\* mutators (Set/Replace on a nil *Map are documented to panic: not defined here)
ASet(p, k, v) == AV(LSet(p.kv, k, v))
AReplace(p, o, n, v) == AV(LReplace(p.kv, o, n, v))
ADelete(p, k) == IF p.nil THEN NIL ELSE AV(LDelete(p.kv, k))
\* constructors / derived maps of the package API
RECURSIVE LFromItems(_)
LFromItems(items) == IF Len(items) = 0 THEN <<>> ELSE LSet(LFromItems(SubSeq(items, 1, Len(items) - 1)), items[Len(items)].k, items[Len(items)].v)
AMapFromItems(items) == AV(LFromItems(items))                       \* MapFromItems: Set in order (later duplicates overwrite in place)
LTransform(l, suffix) == [i \in 1..Len(l) |-> P(l[i].k, l[i].v \o suffix)]   \* TransformValues: same keys, same order
ARangeRename(p, f) ==
    LET r == LRangeRename(p.kv, f) IN [pairs |-> [p EXCEPT !.kv = r.pairs], yields |-> r.yields]
=============================================================================
