---- MODULE MC_InterpOMap_TTrace_1790547278 ----
EXTENDS Sequences, TLCExt, Toolbox, Naturals, TLC, MC_InterpOMap

_expression ==
    LET MC_InterpOMap_TEExpression == INSTANCE MC_InterpOMap_TEExpression
    IN MC_InterpOMap_TEExpression!expression
----

_trace ==
    LET MC_InterpOMap_TETrace == INSTANCE MC_InterpOMap_TETrace
    IN MC_InterpOMap_TETrace!trace
----

_inv ==
    ~(
        TLCGet("level") = Len(_TETrace)
        /\
        n0 = (2)
        /\
        pc = ("done")
        /\
        orig = (<<[k |-> <<[v |-> "A", f |-> "dd", t |-> "esc"]>>, v |-> <<[v |-> "Q", f |-> "dd", t |-> "esc"]>>], [k |-> <<[v |-> "A", f |-> "plain", t |-> "ref"]>>, v |-> <<[v |-> "Q", f |-> "dd", t |-> "esc"]>>]>>)
        /\
        i = (3)
        /\
        m = ([items |-> <<[k |-> "$A", v |-> "$Q", d |-> FALSE], [k |-> "$A", v |-> "$$Q", d |-> TRUE]>>, index |-> ("$A" :> 1), nil |-> FALSE])
        /\
        pairs = (<<>>)
    )
----

_init ==
    /\ n0 = _TETrace[1].n0
    /\ i = _TETrace[1].i
    /\ m = _TETrace[1].m
    /\ pc = _TETrace[1].pc
    /\ pairs = _TETrace[1].pairs
    /\ orig = _TETrace[1].orig
----

_next ==
    /\ \E i,j \in DOMAIN _TETrace:
        /\ \/ /\ j = i + 1
              /\ i = TLCGet("level")
        /\ n0  = _TETrace[i].n0
        /\ n0' = _TETrace[j].n0
        /\ i  = _TETrace[i].i
        /\ i' = _TETrace[j].i
        /\ m  = _TETrace[i].m
        /\ m' = _TETrace[j].m
        /\ pc  = _TETrace[i].pc
        /\ pc' = _TETrace[j].pc
        /\ pairs  = _TETrace[i].pairs
        /\ pairs' = _TETrace[j].pairs
        /\ orig  = _TETrace[i].orig
        /\ orig' = _TETrace[j].orig

\* Uncomment the ASSUME below to write the states of the error trace
\* to the given file in Json format. Note that you can pass any tuple
\* to `JsonSerialize`. For example, a sub-sequence of _TETrace.
    \* ASSUME
    \*     LET J == INSTANCE Json
    \*         IN J!JsonSerialize("MC_InterpOMap_TTrace_1790547278.json", _TETrace)

=============================================================================

 Note that you can extract this module `MC_InterpOMap_TEExpression`
  to a dedicated file to reuse `expression` (the module in the 
  dedicated `MC_InterpOMap_TEExpression.tla` file takes precedence 
  over the module `MC_InterpOMap_TEExpression` below).

---- MODULE MC_InterpOMap_TEExpression ----
EXTENDS Sequences, TLCExt, Toolbox, Naturals, TLC, MC_InterpOMap

expression == 
    [
        \* To hide variables of the `MC_InterpOMap` spec from the error trace,
        \* remove the variables below.  The trace will be written in the order
        \* of the fields of this record.
        n0 |-> n0
        ,i |-> i
        ,m |-> m
        ,pc |-> pc
        ,pairs |-> pairs
        ,orig |-> orig
        
        \* Put additional constant-, state-, and action-level expressions here:
        \* ,_stateNumber |-> _TEPosition
        \* ,_n0Unchanged |-> n0 = n0'
        
        \* Format the `n0` variable as Json value.
        \* ,_n0Json |->
        \*     LET J == INSTANCE Json
        \*     IN J!ToJson(n0)
        
        \* Lastly, you may build expressions over arbitrary sets of states by
        \* leveraging the _TETrace operator.  For example, this is how to
        \* count the number of times a spec variable changed up to the current
        \* state in the trace.
        \* ,_n0ModCount |->
        \*     LET F[s \in DOMAIN _TETrace] ==
        \*         IF s = 1 THEN 0
        \*         ELSE IF _TETrace[s].n0 # _TETrace[s-1].n0
        \*             THEN 1 + F[s-1] ELSE F[s-1]
        \*     IN F[_TEPosition - 1]
    ]

=============================================================================



Parsing and semantic processing can take forever if the trace below is long.
 In this case, it is advised to uncomment the module below to deserialize the
 trace from a generated binary file.

\*
\*---- MODULE MC_InterpOMap_TETrace ----
\*EXTENDS IOUtils, TLC, MC_InterpOMap
\*
\*trace == IODeserialize("MC_InterpOMap_TTrace_1790547278.bin", TRUE)
\*
\*=============================================================================
\*

---- MODULE MC_InterpOMap_TETrace ----
EXTENDS TLC, MC_InterpOMap

trace == 
    <<
    ([n0 |-> 2,pc |-> "range",orig |-> <<[k |-> <<[v |-> "A", f |-> "dd", t |-> "esc"]>>, v |-> <<[v |-> "Q", f |-> "dd", t |-> "esc"]>>], [k |-> <<[v |-> "A", f |-> "plain", t |-> "ref"]>>, v |-> <<[v |-> "Q", f |-> "dd", t |-> "esc"]>>]>>,i |-> 1,m |-> [items |-> <<[k |-> "$$A", v |-> "$$Q", d |-> FALSE], [k |-> "$A", v |-> "$$Q", d |-> FALSE]>>, index |-> ("$A" :> 2 @@ "$$A" :> 1), nil |-> FALSE],pairs |-> <<>>]),
    ([n0 |-> 2,pc |-> "range",orig |-> <<[k |-> <<[v |-> "A", f |-> "dd", t |-> "esc"]>>, v |-> <<[v |-> "Q", f |-> "dd", t |-> "esc"]>>], [k |-> <<[v |-> "A", f |-> "plain", t |-> "ref"]>>, v |-> <<[v |-> "Q", f |-> "dd", t |-> "esc"]>>]>>,i |-> 2,m |-> [items |-> <<[k |-> "$A", v |-> "$Q", d |-> FALSE], [k |-> "$A", v |-> "$$Q", d |-> TRUE]>>, index |-> ("$A" :> 1), nil |-> FALSE],pairs |-> <<>>]),
    ([n0 |-> 2,pc |-> "range",orig |-> <<[k |-> <<[v |-> "A", f |-> "dd", t |-> "esc"]>>, v |-> <<[v |-> "Q", f |-> "dd", t |-> "esc"]>>], [k |-> <<[v |-> "A", f |-> "plain", t |-> "ref"]>>, v |-> <<[v |-> "Q", f |-> "dd", t |-> "esc"]>>]>>,i |-> 3,m |-> [items |-> <<[k |-> "$A", v |-> "$Q", d |-> FALSE], [k |-> "$A", v |-> "$$Q", d |-> TRUE]>>, index |-> ("$A" :> 1), nil |-> FALSE],pairs |-> <<>>]),
    ([n0 |-> 2,pc |-> "done",orig |-> <<[k |-> <<[v |-> "A", f |-> "dd", t |-> "esc"]>>, v |-> <<[v |-> "Q", f |-> "dd", t |-> "esc"]>>], [k |-> <<[v |-> "A", f |-> "plain", t |-> "ref"]>>, v |-> <<[v |-> "Q", f |-> "dd", t |-> "esc"]>>]>>,i |-> 3,m |-> [items |-> <<[k |-> "$A", v |-> "$Q", d |-> FALSE], [k |-> "$A", v |-> "$$Q", d |-> TRUE]>>, index |-> ("$A" :> 1), nil |-> FALSE],pairs |-> <<>>])
    >>
----


=============================================================================

---- CONFIG MC_InterpOMap_TTrace_1790547278 ----
CONSTANTS
    N = 3
    RenameInPlace = TRUE
    FixReplaceSelf = TRUE
    FixEqualBounds = TRUE

INVARIANT
    _inv

CHECK_DEADLOCK
    \* CHECK_DEADLOCK off because of PROPERTY or INVARIANT above.
    FALSE

INIT
    _init

NEXT
    _next

CONSTANT
    _TETrace <- _trace

ALIAS
    _expression
=============================================================================
\* Generated on Sun Sep 27 22:14:40 UTC 2026