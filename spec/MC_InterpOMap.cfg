SPECIFICATION Spec
CONSTANTS
  N = 3
  RenameInPlace = FALSE
  FixReplaceSelf = TRUE
  FixEqualBounds = TRUE
INVARIANTS InvAtDone InvNothingLostMidway
PROPERTY Termination
CHECK_DEADLOCK FALSE
