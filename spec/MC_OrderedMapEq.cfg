SPECIFICATION Spec
CONSTANTS
  Keys = {"a", "b", "c"}
  Vals = {"1", "2"}
  MaxA = 3
  MaxB = 2
  FixReplaceSelf = TRUE
  FixEqualBounds = TRUE
VIEW view
INVARIANTS InvEqualExact InvEqualSymmetric
CHECK_DEADLOCK FALSE
