SPECIFICATION Spec
CONSTANTS
  EnvNames = {"A", "B", "C", "UNRELATED"}
INVARIANTS InvContentPreserved InvStillVerifies
CHECK_DEADLOCK FALSE
