package main

import (
	"bytes"
	"context"
	"encoding/json"
	"fmt"
	"math/rand"
	"strings"

	pipeline "github.com/buildkite/go-pipeline"
	"github.com/buildkite/go-pipeline/signature"
	"github.com/buildkite/go-pipeline/warning"
	"gopkg.in/yaml.v3"
)

// C02: signed steps still verify after serialisation and re-parse.

func allCommands(steps pipeline.Steps, out *[]*pipeline.CommandStep) { c06Commands(steps, out) }

// signedContentAV: what the signature covers of a step, as AV
func signedContentAV(cs *pipeline.CommandStep) any {
	b, err := json.Marshal(map[string]any{
		"command": cs.Command, "env": signature.EmptyToNilMap(cs.Env), "plugins": signature.EmptyToNilSlice(cs.Plugins),
		"matrix": signature.EmptyToNilPtr(cs.Matrix),
	})
	if err != nil {
		panic("driver: marshal of signed content: " + err.Error())
	}
	return mustAVJSON(b, "signed content")
}

// shuffleAV reorders the keys of every mapping (what a backend may do).
func shuffleAV(a any, rng *rand.Rand) any {
	m := a.(obj)
	switch m["t"] {
	case "m":
		kv := append([]any{}, m["kv"].([]any)...)
		for i, p := range kv {
			pp := p.([]any)
			kv[i] = []any{pp[0], shuffleAV(pp[1], rng)}
		}
		rng.Shuffle(len(kv), func(i, j int) { kv[i], kv[j] = kv[j], kv[i] })
		return obj{"t": "m", "kv": kv}
	case "q":
		e := append([]any{}, m["e"].([]any)...)
		for i := range e {
			e[i] = shuffleAV(e[i], rng)
		}
		return obj{"t": "q", "e": e}
	}
	return a
}

func shuffleYAMLNode(n *yaml.Node, rng *rand.Rand) {
	for _, c := range n.Content {
		shuffleYAMLNode(c, rng)
	}
	if n.Kind == yaml.MappingNode {
		pairs := len(n.Content) / 2
		perm := rng.Perm(pairs)
		nc := make([]*yaml.Node, 0, len(n.Content))
		for _, i := range perm {
			nc = append(nc, n.Content[2*i], n.Content[2*i+1])
		}
		n.Content = nc
	}
}

func c02Event(src, style, format, entry, alg string, interpolate bool, seed int64) obj {
	ev := obj{"src": src, "style": style, "format": format, "entry": entry, "alg": alg, "interpolate": interpolate, "rot": seed,
		"failed": "", "steps": []any{}, "nbefore": 0, "panic": false, "probe": ""}
	rng := newRand(seed, "c02")
	ctx := context.Background()
	repo := "https://example.com/repo.git"
	fail := func(stage string, err error) { ev["failed"], ev["errmsg"] = stage, err.Error() }
	p, msg := guarded(func() {
		pl, err := pipeline.Parse(strings.NewReader(src))
		if err != nil {
			panic("driver: the generated document does not parse cleanly: " + err.Error() + "\n" + src)
		}
		if interpolate {
			env := &foldingEnv{m: map[string]string{"HOME": "/home/x", "A": "1", "C02_RENAME": "C02_TARGET", "C02_FIELD": "env"}}
			if err := pl.Interpolate(env, false); err != nil {
				ev["failed"] = "skip:interpolate" // not every generated string is valid interpolation syntax
				return
			}
		}
		kp := getKey(alg, "K1")
		if err := signature.SignSteps(ctx, pl.Steps, kp.sign, repo, signature.WithEnv(pl.Env.ToMap())); err != nil {
			fail("SignSteps", err)
			return
		}
		var before []*pipeline.CommandStep
		allCommands(pl.Steps, &before)
		ev["nbefore"] = len(before)
		beforeAV := make([]any, len(before))
		for i, cs := range before {
			beforeAV[i] = signedContentAV(cs)
		}
		var after []*pipeline.CommandStep
		venv := map[string]string{"BUILDKITE_UNRELATED": "x", "CI": "true"}
		if seed%2 == 0 {
			// unrelated job variables may carry ANY name - also the names of the signed object fields
			for _, k := range []string{"command", "env", "plugins", "matrix", "repository_url"} {
				venv[k] = "unrelated-" + k
			}
		}
		switch entry {
		case "parse":
			var text []byte
			if format == "json" {
				jb, err := json.Marshal(pl)
				if err != nil {
					fail("json.Marshal", err)
					return
				}
				text = utf8JSON(docFromAV(shuffleAV(mustAVJSON(jb, "json output"), rng)))
			} else {
				yb, err := yaml.Marshal(pl)
				if err != nil {
					fail("yaml.Marshal", err)
					return
				}
				var n yaml.Node
				if err := yaml.Unmarshal(yb, &n); err != nil {
					fail("yaml output unreadable", err)
					return
				}
				shuffleYAMLNode(&n, rng)
				text, err = yaml.Marshal(&n)
				if err != nil {
					panic("driver: re-emitting the shuffled YAML: " + err.Error())
				}
			}
			p2, err := pipeline.Parse(bytes.NewReader(text))
			if err != nil && !warning.Is(err) {
				fail("reparse", err)
				ev["text"] = string(text)
				return
			}
			allCommands(p2.Steps, &after)
			for k, v := range p2.Env.ToMap() {
				venv[k] = v
			}
		case "stepjson":
			// the way an agent receives a job: one step at a time, as JSON
			for _, cs := range before {
				sb, err := json.Marshal(cs)
				if err != nil {
					fail("json.Marshal of a step", err)
					return
				}
				text := utf8JSON(docFromAV(shuffleAV(mustAVJSON(sb, "step json"), rng)))
				var again pipeline.CommandStep
				if err := again.UnmarshalJSON(text); err != nil {
					fail("CommandStep.UnmarshalJSON", err)
					return
				}
				after = append(after, &again)
			}
			for k, v := range pl.Env.ToMap() {
				venv[k] = v
			}
		}
		// the verification env map is ONE map for all steps (as an agent would keep it); after the first pass every step is
		// verified once more with it: verifying reads the map
		for _, cs := range after {
			if cs.Signature != nil {
				signature.Verify(ctx, cs.Signature, keySetFor(alg, "signer"),
					&signature.CommandStepWithInvariants{CommandStep: *cs, RepositoryURL: repo}, signature.WithEnv(venv))
			}
		}
		steps := []any{}
		for i, cs := range after {
			s := obj{"hassig": cs.Signature != nil, "verified": false, "before": obj{"t": "z"}, "after": signedContentAV(cs)}
			if i < len(beforeAV) {
				s["before"] = beforeAV[i]
			}
			if cs.Signature != nil {
				verr := signature.Verify(ctx, cs.Signature, keySetFor(alg, "signer"),
					&signature.CommandStepWithInvariants{CommandStep: *cs, RepositoryURL: repo}, signature.WithEnv(venv))
				s["verified"] = verr == nil
				if verr != nil {
					s["verr"] = verr.Error()
				}
			}
			steps = append(steps, s)
		}
		ev["steps"] = steps
	})
	ev["panic"] = p
	if p {
		if strings.HasPrefix(msg, "driver:") {
			fatal("%s", msg)
		}
		ev["panicmsg"] = msg
	}
	return ev
}

func runC02(args []string) {
	fl := parseFlags(args)
	tw := newTraceWriter(fl.str("out", ""))
	defer tw.close()
	samples := []any{}
	nsteps := 0
	emit := func(ev obj) {
		if strings.HasPrefix(ev["failed"].(string), "skip:") {
			return
		}
		nsteps += len(ev["steps"].([]any))
		if len(samples) < 3 && tw.n%53 == 7 {
			samples = append(samples, obj{"document": ev["src"], "format": ev["format"], "entry": ev["entry"], "key": ev["alg"], "interpolated": ev["interpolate"],
				"steps_verified": len(ev["steps"].([]any)), "failed": ev["failed"]})
		}
		tw.emit(ev)
	}
	if cf := fl.str("cases", ""); cf != "" {
		readNDJSON(cf, func(_ int, c obj) {
			seed, _ := c["rot"].(json.Number).Int64()
			ev := c02Event(c["src"].(string), c["style"].(string), c["format"].(string), c["entry"].(string), c["alg"].(string), c["interpolate"].(bool), seed)
			if pid, _ := c["probe"].(string); pid != "" {
				ev["probe"] = pid
			}
			emit(ev)
		})
	} else if fl.str("probes", "") != "" {
		// fixed inputs for defects recorded in known_findings.json
		// F26: a step-level key that interpolation renames to the name of a typed field which the step does not set
		for _, format := range []string{"json", "yaml"} {
			ev := c02Event(`{"steps":[{"command":"a","${C02_FIELD}":{"A":"b"}}]}`, "json", format, "parse", "EdDSA", true, 1)
			ev["probe"] = "F26-key-renamed-to-field-name"
			emit(ev)
		}
	} else {
		rng := newRand(int64(fl.int("seed", 1)), "c02gen")
		algs := []string{"EdDSA", "ES512", "PS512", "ES256"}
		for i, n := 0, fl.int("n", 50); i < n; i++ {
			g := newDocGen(rng)
			g.noUnknown, g.noSig, g.typed = true, true, false
			g.bigMaps = i%7 == 6
			doc := g.pipeline()
			doc = c02Overlap(doc, rng)
			rends := docRenderings(doc, rng, 1)
			for ri, r := range rends {
				for _, format := range []string{"json", "yaml"} {
					for _, entry := range []string{"parse", "stepjson"} {
						if entry == "stepjson" && format == "yaml" {
							continue // a single step travels as JSON only
						}
						alg := algs[(i+ri)%len(algs)]
						emit(c02Event(r[0].(string), r[2].(string), format, entry, alg, (i+ri)%2 == 1, int64(fl.int("seed", 1))*1000003+int64(i*31+ri)))
					}
				}
			}
		}
	}
	writeSummary(fl.str("summary", ""), obj{"events": tw.n, "steps_verified": nsteps, "samples": samples})
}

var _ = fmt.Sprint

// c02Overlap makes step envs overlap the pipeline env: some command steps override
// (shadow) a pipeline variable, with another value or with the empty string.
func c02Overlap(doc any, rng *rand.Rand) any {
	top, ok := doc.(orderedJSON)
	if !ok {
		return doc
	}
	var penv orderedJSON
	for _, p := range top {
		if p[0] == "env" {
			penv, _ = p[1].(orderedJSON)
		}
	}
	if len(penv) == 0 {
		// give the pipeline an env block so that env:: fields are signed at all
		penv = orderedJSON{{"DEPLOY_ENV", "prod"}, {"REGION", "eu"}}
		top = append(orderedJSON{{"env", penv}}, top...)
	}
	// an env-block name that interpolation renames onto a name defined LATER in the block: the
	// ordered map then holds a dead pair behind the live one (Replace tombstones, it does not compact)
	penv = append(append(orderedJSON{}, penv...), [2]any{"${C02_RENAME}", "renamed"}, [2]any{"C02_TARGET", "original"})
	if rng.Intn(2) == 0 {
		penv = append(penv, [2]any{"plugins", "docker,ecr"}, [2]any{"command", "from-env"}) // pipeline variables named like signed fields
	}
	if rng.Intn(2) == 0 {
		penv = append(penv, [2]any{"http_proxy", "lower"}, [2]any{"HTTP_PROXY", "UPPER"}, [2]any{"Http_Proxy", "Mixed"}) // names that differ only in case are different variables
	}
	for pi, p := range top {
		if p[0] == "env" {
			top[pi] = [2]any{"env", penv}
		}
	}
	var walk func(steps []any)
	walk = func(steps []any) {
		for si, st := range steps {
			m, ok := st.(orderedJSON)
			if !ok {
				continue
			}
			isCmd := false
			for _, p := range m {
				if p[0] == "command" || p[0] == "commands" || p[0] == "plugins" {
					isCmd = true
				}
				if p[0] == "steps" {
					if l, ok := p[1].([]any); ok {
						walk(l)
					}
				}
			}
			if isCmd && rng.Intn(4) == 0 {
				// a command whose tail comes from a variable that expands to nothing: after interpolation the command
				// ENDS IN A SPACE, and that is what gets signed and written out
				for pi, p := range m {
					if cstr, ok := p[1].(string); ok && p[0] == "command" && cstr != "" {
						m[pi] = [2]any{"command", cstr + " ${C02_NOT_SET}"}
						steps[si] = m
					}
				}
			}
			if isCmd && rng.Intn(4) == 0 {
				// a command step whose command is EMPTY and that has no plugins: only the (empty) `command` key says what it is
				hasPlugins, cmdAt := false, -1
				for pi, p := range m {
					if p[0] == "plugins" || p[0] == "commands" {
						hasPlugins = true
					}
					if p[0] == "command" {
						cmdAt = pi
					}
				}
				if !hasPlugins && cmdAt >= 0 {
					m[cmdAt] = [2]any{"command", ""}
					steps[si] = m
				}
			}
			if isCmd && rng.Intn(4) == 0 {
				// an OPTIONAL plugin: its whole source comes from a variable that expands to nothing, so the interpolated
				// step carries a plugin with the empty source - signed and written out like any other entry
				for pi, p := range m {
					if p[0] != "plugins" {
						continue
					}
					switch pl := p[1].(type) {
					case []any:
						m[pi] = [2]any{"plugins", append(append([]any{}, pl...), "${C02_NOT_SET}")}
					case orderedJSON:
						m[pi] = [2]any{"plugins", append(append(orderedJSON{}, pl...), [2]any{"${C02_NOT_SET}", nil})}
					}
					steps[si] = m
				}
			}
			if isCmd && rng.Intn(3) == 0 {
				// the document already carries a signature (made earlier, over other content, maybe with the very
				// algorithm that signs now): signing replaces it
				hasSig := false
				for _, p := range m {
					if p[0] == "signature" {
						hasSig = true
					}
				}
				if !hasSig {
					m = append(m, [2]any{"signature", orderedJSON{{"algorithm", []string{"EdDSA", "ES512", "PS512", "ES256"}[rng.Intn(4)]},
						{"signed_fields", []any{"command", "env", "matrix", "plugins", "repository_url"}}, {"value", "eyJhbGciOiJFZERTQSJ9..c3RhbGU"}}})
					steps[si] = m
				}
			}
			if !isCmd || rng.Intn(2) == 0 {
				continue
			}
			name := penv[rng.Intn(len(penv))][0].(string)
			val := []any{"", "", "override", 7}[rng.Intn(4)]
			found := false
			for pi, p := range m {
				if p[0] == "env" {
					if e, ok := p[1].(orderedJSON); ok {
						m[pi][1] = append(append(orderedJSON{}, e...), [2]any{name, val})
						found = true
					}
				}
			}
			if !found {
				m = append(m, [2]any{"env", orderedJSON{{name, val}}})
			}
			steps[si] = m
		}
	}
	for _, p := range top {
		if p[0] == "steps" {
			if l, ok := p[1].([]any); ok {
				walk(l)
			}
		}
	}
	return top
}
