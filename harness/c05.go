package main

import (
	"bytes"
	"encoding/json"
	"fmt"
	"math/rand"
	"reflect"
	"sort"
	"strings"

	"github.com/buildkite/go-pipeline/ordered"
	"gopkg.in/yaml.v3"
)

// ---------------------------------------------------------------------------
// C05: ordered.Map under every operation sequence.
//
// Modes:
//   trans  : for every model state exported by TLC (with its shortest history)
//            rebuild it on a real map and take EVERY mutator instance, every
//            observer and every rename-inside-Range function from it.
//   random : long seeded histories over large alphabets.
// Events are validated by spec/Trace_OrderedMap.tla.
// ---------------------------------------------------------------------------

// mapUnderTest abstracts over the value type so Map[string,string] and
// Map[string,any] are both driven.
type mapUnderTest interface {
	isNil() bool
	set(k, v string)
	replace(o, n, v string)
	del(k string)
	length() int
	isZero() bool
	get(k string) (string, bool)
	contains(k string) bool
	rangeAll(f func(k, v string) error) error
	toMap() (map[string]string, bool)
	marshalJSON() ([]byte, error)
	marshalJSONDirect() ([]byte, error) // the method itself, not through encoding/json (which copies what it is handed)
	marshalYAML() ([]byte, error)
	equalSelf() bool
	equalOther(kv [][2]string, isNil bool, tomb bool) (ab, ba bool)
	slots() (keys, vals []string, deleted []bool, isNil bool)
}

type mapSS struct{ m *ordered.Map[string, string] }

func (x mapSS) isNil() bool                 { return x.m == nil }
func (x mapSS) set(k, v string)             { x.m.Set(k, v) }
func (x mapSS) replace(o, n, v string)      { x.m.Replace(o, n, v) }
func (x mapSS) del(k string)                { x.m.Delete(k) }
func (x mapSS) length() int                 { return x.m.Len() }
func (x mapSS) isZero() bool                { return x.m.IsZero() }
func (x mapSS) get(k string) (string, bool) { return x.m.Get(k) }
func (x mapSS) contains(k string) bool      { return x.m.Contains(k) }
func (x mapSS) rangeAll(f func(k, v string) error) error {
	return x.m.Range(f)
}
func (x mapSS) toMap() (map[string]string, bool) { t := x.m.ToMap(); return t, t == nil }
func (x mapSS) marshalJSON() ([]byte, error)     { return json.Marshal(x.m) }
func (x mapSS) marshalJSONDirect() ([]byte, error) { return x.m.MarshalJSON() }
func (x mapSS) marshalYAML() ([]byte, error)     { return yaml.Marshal(x.m) }
func (x mapSS) equalSelf() bool                  { return ordered.Equal(x.m, x.m) }
func (x mapSS) equalOther(kv [][2]string, isNil, tomb bool) (bool, bool) {
	var o *ordered.Map[string, string]
	if !isNil {
		o = ordered.NewMap[string, string](0)
		if tomb {
			// same content reached through a different history: leave tombstones
			// before, between and after the live entries where possible.
			o.Set("~~pre", "x")
			for i, p := range kv {
				o.Set(p[0], p[1])
				o.Set(fmt.Sprintf("~~t%d", i), "x")
			}
			for i := range kv {
				if i%2 == 1 {
					o.Delete(fmt.Sprintf("~~t%d", i))
				}
			}
			// pad with live-and-then-deleted entries so compaction does not
			// necessarily clean everything up
			o.Delete("~~pre")
			for i := range kv {
				if i%2 == 0 {
					o.Delete(fmt.Sprintf("~~t%d", i))
				}
			}
		} else {
			for _, p := range kv {
				o.Set(p[0], p[1])
			}
		}
	}
	return ordered.Equal(x.m, o), ordered.Equal(o, x.m)
}
func (x mapSS) slots() ([]string, []string, []bool, bool) {
	k, v, d, _, n := ordered.VerifSlots(x.m)
	return k, v, d, n
}

type mapSA struct{ m *ordered.Map[string, any] }

func (x mapSA) isNil() bool            { return x.m == nil }
func (x mapSA) set(k, v string)        { x.m.Set(k, v) }
func (x mapSA) replace(o, n, v string) { x.m.Replace(o, n, v) }
func (x mapSA) del(k string)           { x.m.Delete(k) }
func (x mapSA) length() int            { return x.m.Len() }
func (x mapSA) isZero() bool           { return x.m.IsZero() }
func (x mapSA) get(k string) (string, bool) {
	v, ok := x.m.Get(k)
	s, _ := v.(string)
	return s, ok
}
func (x mapSA) contains(k string) bool { return x.m.Contains(k) }
func (x mapSA) rangeAll(f func(k, v string) error) error {
	return x.m.Range(func(k string, v any) error { s, _ := v.(string); return f(k, s) })
}
func (x mapSA) toMap() (map[string]string, bool) {
	t := x.m.ToMap()
	if t == nil {
		return nil, true
	}
	out := make(map[string]string, len(t))
	for k, v := range t {
		out[k], _ = v.(string)
	}
	return out, false
}
func (x mapSA) marshalJSON() ([]byte, error) { return json.Marshal(x.m) }
func (x mapSA) marshalJSONDirect() ([]byte, error) { return x.m.MarshalJSON() }
func (x mapSA) marshalYAML() ([]byte, error) { return yaml.Marshal(x.m) }
func (x mapSA) equalSelf() bool              { return ordered.Equal(x.m, x.m) }
func (x mapSA) equalOther(kv [][2]string, isNil, tomb bool) (bool, bool) {
	var o *ordered.Map[string, any]
	if !isNil {
		o = ordered.NewMap[string, any](0)
		for _, p := range kv {
			o.Set(p[0], p[1])
		}
		if tomb {
			o.Set("~~post", "x")
			o.Delete("~~post")
		}
	}
	return ordered.Equal(x.m, o), ordered.Equal(o, x.m)
}
func (x mapSA) slots() ([]string, []string, []bool, bool) {
	k, v, d, _, n := ordered.VerifSlots(x.m)
	vs := make([]string, len(v))
	for i := range v {
		vs[i], _ = v[i].(string)
	}
	return k, vs, d, n
}

func newMapUT(vt, init string) mapUnderTest {
	switch vt + "/" + init {
	case "ss/nil":
		return mapSS{nil}
	case "ss/new":
		return mapSS{ordered.NewMap[string, string](0)}
	case "ss/zero":
		return mapSS{new(ordered.Map[string, string])}
	case "sa/nil":
		return mapSA{nil}
	case "sa/new":
		return mapSA{ordered.NewMap[string, any](0)}
	case "sa/zero":
		return mapSA{new(ordered.Map[string, any])}
	}
	fatal("bad map kind %s/%s", vt, init)
	return nil
}

// guarded runs f and reports whether it panicked.
func guarded(f func()) (panicked bool, msg string) {
	defer func() {
		if r := recover(); r != nil {
			panicked = true
			msg = fmt.Sprint(r)
		}
	}()
	f()
	return false, ""
}

func rangeList(m mapUnderTest) [][2]string {
	out := [][2]string{}
	m.rangeAll(func(k, v string) error { out = append(out, [2]string{k, v}); return nil })
	return out
}

func getsFor(m mapUnderTest, keys []string, withContains bool) []any {
	out := []any{}
	for _, k := range keys {
		v, ok := m.get(k)
		if withContains {
			out = append(out, []any{k, ok, v, m.contains(k)})
		} else {
			out = append(out, []any{k, ok, v})
		}
	}
	return out
}

// orderedJSONObject decodes a JSON object of string values preserving key order.
func orderedJSONObject(b []byte) (kv [][2]string, isNull bool, err error) {
	d := json.NewDecoder(bytes.NewReader(b))
	t, err := d.Token()
	if err != nil {
		return nil, false, err
	}
	if t == nil {
		return [][2]string{}, true, nil
	}
	if dl, ok := t.(json.Delim); !ok || dl != '{' {
		return nil, false, fmt.Errorf("not an object: %v", t)
	}
	kv = [][2]string{}
	for d.More() {
		kt, err := d.Token()
		if err != nil {
			return nil, false, err
		}
		vt, err := d.Token()
		if err != nil {
			return nil, false, err
		}
		ks, _ := kt.(string)
		vs, ok := vt.(string)
		if !ok {
			return nil, false, fmt.Errorf("non-string value %v", vt)
		}
		kv = append(kv, [2]string{ks, vs})
	}
	return kv, false, nil
}

// orderedYAMLMapping decodes a YAML mapping of scalars preserving key order,
// using plain yaml.v3 nodes (not the code under test).
func orderedYAMLMapping(b []byte) (kv [][2]string, isNull bool, err error) {
	var n yaml.Node
	if err := yaml.Unmarshal(b, &n); err != nil {
		return nil, false, err
	}
	if n.Kind == 0 {
		return [][2]string{}, true, nil
	}
	c := &n
	if c.Kind == yaml.DocumentNode {
		c = c.Content[0]
	}
	if c.Kind == yaml.ScalarNode && c.Tag == "!!null" {
		return [][2]string{}, true, nil
	}
	if c.Kind != yaml.MappingNode {
		return nil, false, fmt.Errorf("not a mapping: kind %d", c.Kind)
	}
	kv = [][2]string{}
	for i := 0; i+1 < len(c.Content); i += 2 {
		kv = append(kv, [2]string{c.Content[i].Value, c.Content[i+1].Value})
	}
	return kv, false, nil
}

// mutEvent applies one mutator to the real map and logs the event.
func mutEvent(tw *traceWriter, m mapUnderTest, op []string, full bool) {
	ev := obj{"op": op[0]}
	var touched []string
	var f func()
	switch op[0] {
	case "set":
		ev["k"], ev["v"] = op[1], op[2]
		touched = []string{op[1]}
		f = func() { m.set(op[1], op[2]) }
	case "replace":
		ev["old"], ev["new"], ev["v"] = op[1], op[2], op[3]
		touched = []string{op[1], op[2]}
		f = func() { m.replace(op[1], op[2], op[3]) }
	case "delete":
		ev["k"] = op[1]
		touched = []string{op[1]}
		f = func() { m.del(op[1]) }
	default:
		fatal("bad op %v", op)
	}
	p, msg := guarded(f)
	ev["panic"] = p
	if p {
		ev["panicmsg"] = msg
		ev["len"], ev["iszero"], ev["gets"], ev["full"], ev["range"] = 0, false, []any{}, false, []any{}
		tw.emit(ev)
		return
	}
	p, msg = guarded(func() {
		ev["len"] = m.length()
		ev["iszero"] = m.isZero()
		ev["gets"] = getsFor(m, touched, false)
		ev["full"] = full
		if full {
			ev["range"] = rangeList(m)
		} else {
			ev["range"] = []any{}
		}
	})
	if p {
		ev["panic"], ev["panicmsg"] = true, "observer after "+op[0]+": "+msg
		ev["len"], ev["iszero"], ev["gets"], ev["full"], ev["range"] = 0, false, []any{}, false, []any{}
	}
	tw.emit(ev)
}

// observeEvent logs every observer of the real map.
func observeEvent(tw *traceWriter, m mapUnderTest, alphabet []string, rng *rand.Rand) {
	ev := obj{"op": "observe"}
	p, msg := guarded(func() {
		ev["len"] = m.length()
		ev["iszero"] = m.isZero()
		r := rangeList(m)
		ev["range"] = r
		ev["gets"] = getsFor(m, alphabet, true)
		tm, tmNil := m.toMap()
		ev["tomapnil"] = tmNil
		tl := [][2]string{}
		for k, v := range tm {
			tl = append(tl, [2]string{k, v})
		}
		sort.Slice(tl, func(i, j int) bool { return tl[i][0] < tl[j][0] })
		ev["tomap"] = tl
		jb, err := m.marshalJSON()
		if err != nil {
			panic("MarshalJSON: " + err.Error())
		}
		jkv, jnull, err := orderedJSONObject(jb)
		if err != nil {
			panic("decoding MarshalJSON output " + string(jb) + ": " + err.Error())
		}
		ev["json"] = obj{"nil": jnull, "kv": jkv}
		// the encoding a caller holds stays what it was while OTHER maps are encoded (the method called directly: its
		// result is the caller's to keep)
		held, herr := m.marshalJSONDirect()
		for r := 0; r < 3; r++ {
			ordered.MapFromItems(ordered.TupleSS{Key: "p", Value: "7"}, ordered.TupleSS{Key: "q", Value: "9"}, ordered.TupleSS{Key: strings.Repeat("w", 40*(r+1)), Value: "x"}).MarshalJSON()
		}
		if herr != nil {
			panic("MarshalJSON (direct): " + herr.Error())
		}
		hkv, hnull, err := orderedJSONObject(held)
		if err != nil {
			panic("the held MarshalJSON result is no longer JSON: " + string(held) + ": " + err.Error())
		}
		if !m.isNil() && !reflect.DeepEqual(hkv, jkv) {
			ev["json"] = obj{"nil": hnull, "kv": hkv, "held": true}
		}
		yb, err := m.marshalYAML()
		if err != nil {
			panic("MarshalYAML: " + err.Error())
		}
		ykv, ynull, err := orderedYAMLMapping(yb)
		if err != nil {
			panic("decoding MarshalYAML output " + string(yb) + ": " + err.Error())
		}
		ev["yaml"] = obj{"nil": ynull, "kv": ykv}
		ev["equalself"] = m.equalSelf()

		// Equality against independently built maps.
		others := []any{}
		add := func(kv [][2]string, isNil, tomb bool) {
			ab, ba := m.equalOther(kv, isNil, tomb)
			others = append(others, obj{"m": obj{"nil": isNil, "kv": kv}, "ab": ab, "ba": ba})
		}
		cp := func() [][2]string { return append([][2]string{}, r...) }
		add(cp(), false, false) // same content
		add(cp(), false, true)  // same content, different history (tombstones)
		add(nil2(), true, false)
		if len(r) >= 1 {
			c := cp()
			c[len(c)-1][1] += "~" // one value differs
			add(c, false, false)
			add(cp()[:len(r)-1], false, false) // one entry fewer
			c2 := cp()
			i := rng.Intn(len(c2))
			c2[i][0] += "~" // one key differs
			add(c2, false, true)
		}
		if len(r) >= 2 {
			c := cp()
			i := rng.Intn(len(c) - 1)
			c[i], c[i+1] = c[i+1], c[i] // order differs
			add(c, false, false)
			c3 := cp()
			c3[0], c3[len(c3)-1] = c3[len(c3)-1], c3[0]
			add(c3, false, true)
		}
		add(append(cp(), [2]string{"~~extra", "x"}), false, false)
		ev["others"] = others
	})
	ev["panic"] = p
	if p {
		ev["panicmsg"] = msg
		for _, k := range []string{"range", "gets", "tomap", "others"} {
			ev[k] = []any{}
		}
		ev["len"], ev["iszero"], ev["tomapnil"], ev["equalself"] = 0, false, false, false
		ev["json"], ev["yaml"] = obj{"nil": false, "kv": []any{}}, obj{"nil": false, "kv": []any{}}
	}
	tw.emit(ev)
}

func nil2() [][2]string { return [][2]string{} }

// renameEvent ranges over the real map with a callback that renames the entry
// just yielded (what interpolateOrderedMap does).
func renameEvent(tw *traceWriter, m mapUnderTest, f map[string][2]string, flist []any) {
	ev := obj{"op": "rangerename", "f": flist}
	yields := [][2]string{}
	// For every second rename function (decided by the function itself) the callback of the LAST live entry also renames
	// an ABSENT key to a fresh one - an append made from inside the iteration. The pass that is under way does not
	// visit it (it iterates over what the map held when it began); the driver removes it again right after the
	// pass, so the abstract state is the one the rename function alone gives.
	tail := len(fmt.Sprint(flist))%2 == 0
	ev["tail"] = tail
	p, msg := guarded(func() {
		nlive := m.length()
		m.rangeAll(func(k, v string) error {
			yields = append(yields, [2]string{k, v})
			if k == "\x00tail" {
				return nil // (never on a correct map: reported through `yields`)
			}
			to, ok := f[k]
			if !ok {
				panic("driver: rename function undefined for yielded key " + k)
			}
			m.replace(k, to[0], to[1])
			if tail && len(yields) == nlive {
				m.replace("\x00absent", "\x00tail", "T")
			}
			return nil
		})
		if tail {
			m.del("\x00tail")
		}
		ev["range"] = rangeList(m)
		ev["len"] = m.length()
	})
	ev["yields"] = yields
	ev["panic"] = p
	if p {
		ev["panicmsg"] = msg
		ev["range"], ev["len"] = []any{}, 0
	}
	tw.emit(ev)
}

// fromItemsEvent builds a map with MapFromItems (duplicates included) and logs what it holds.
func fromItemsEvent(tw *traceWriter, items [][2]string) *ordered.Map[string, string] {
	ev := obj{"op": "fromitems", "items": items}
	var m *ordered.Map[string, string]
	p, msg := guarded(func() {
		ts := make([]ordered.TupleSS, 0, len(items))
		for _, it := range items {
			ts = append(ts, ordered.TupleSS{Key: it[0], Value: it[1]})
		}
		m = ordered.MapFromItems(ts...)
		r := [][2]string{}
		m.Range(func(k, v string) error { r = append(r, [2]string{k, v}); return nil })
		ev["range"], ev["len"] = r, m.Len()
	})
	ev["panic"] = p
	if p {
		ev["panicmsg"], ev["range"], ev["len"] = msg, []any{}, 0
		m = ordered.NewMap[string, string](0)
	}
	tw.emit(ev)
	return m
}

// deriveEvent: TransformValues, AssertValues, ToMapRecursive on the current map.
func deriveEvent(tw *traceWriter, m *ordered.Map[string, string]) {
	ev := obj{"op": "derive", "transformed": []any{}, "asserted": []any{}, "assertok": false, "assertbadok": true, "tomaprec": []any{}, "range": []any{}}
	p, msg := guarded(func() {
		t := ordered.TransformValues(m, func(v string) string { return v + "!" })
		tr := [][2]string{}
		t.Range(func(k, v string) error { tr = append(tr, [2]string{k, v}); return nil })
		ev["transformed"] = tr
		sa := ordered.TransformValues(m, func(v string) any { return v })
		as, err := ordered.AssertValues[string](sa)
		ar := [][2]string{}
		as.Range(func(k, v string) error { ar = append(ar, [2]string{k, v}); return nil })
		ev["asserted"], ev["assertok"] = ar, err == nil
		bad := ordered.TransformValues(m, func(v string) any { return v })
		bad.Set("~~not-a-string", 42)
		_, berr := ordered.AssertValues[string](bad)
		ev["assertbadok"] = berr == nil
		var recSrc *ordered.MapSA = sa
		if m == nil {
			recSrc = nil // a typed nil map, as ToMap accepts
		}
		rec, _ := ordered.ToMapRecursive(recSrc).(map[string]any)
		tl := [][2]string{}
		for k, v := range rec {
			s, _ := v.(string)
			tl = append(tl, [2]string{k, s})
		}
		sort.Slice(tl, func(i, j int) bool { return tl[i][0] < tl[j][0] })
		ev["tomaprec"] = tl
		r := [][2]string{}
		m.Range(func(k, v string) error { r = append(r, [2]string{k, v}); return nil })
		ev["range"] = r
	})
	ev["panic"] = p
	if p {
		ev["panicmsg"] = msg
	}
	tw.emit(ev)
}

func parseOps(a any) [][]string {
	l, _ := a.([]any)
	out := make([][]string, len(l))
	for i, x := range l {
		out[i] = strs(x)
	}
	return out
}

func parseKV(a any) [][2]string {
	l, _ := a.([]any)
	out := make([][2]string, 0, len(l))
	for _, x := range l {
		s := strs(x)
		out = append(out, [2]string{s[0], s[1]})
	}
	return out
}

// rebuild replays hist silently on a fresh map. A panic here is reported by
// the restore event (got != want / panic flag).
func rebuild(vt, init string, hist [][]string) (m mapUnderTest, panicked bool) {
	m = newMapUT(vt, init)
	panicked, _ = guarded(func() {
		for _, op := range hist {
			switch op[0] {
			case "set":
				m.set(op[1], op[2])
			case "replace":
				m.replace(op[1], op[2], op[3])
			case "delete":
				m.del(op[1])
			}
		}
	})
	return m, panicked
}

func restoreEvent(tw *traceWriter, m mapUnderTest, panicked bool, want obj, init, vt string, hist [][]string) {
	ev := obj{"op": "restore", "want": want, "panic": panicked, "init": init, "vt": vt, "hist": hist}
	if panicked {
		ev["got"] = obj{"nil": false, "kv": []any{}}
	} else {
		var r [][2]string
		p, _ := guarded(func() { r = rangeList(m) })
		if p {
			ev["panic"] = true
			r = [][2]string{}
		}
		ev["got"] = obj{"nil": m.isNil(), "kv": r}
	}
	tw.emit(ev)
}

func runC05(args []string) {
	fl := parseFlags(args)
	mode := fl.str("mode", "trans")
	out := fl.str("out", "")
	seed := int64(fl.int("seed", 1))
	tw := newTraceWriter(out)
	defer tw.close()
	sum := obj{"mode": mode}
	switch mode {
	case "trans":
		c05Trans(tw, fl, seed, sum)
	case "random":
		c05Random(tw, fl, seed, sum)
	case "steps":
		c05Steps(tw, fl, seed)
	default:
		fatal("c05: unknown mode %s", mode)
	}
	sum["events"] = tw.n
	writeSummary(fl.str("summary", ""), sum)
}

func c05Trans(tw *traceWriter, fl flags, seed int64, sum obj) {
	keys := []string{"a", "b", "c"}
	vals := []string{"1", "2"}
	var allOps [][]string
	for _, k := range keys {
		for _, v := range vals {
			allOps = append(allOps, []string{"set", k, v})
		}
	}
	for _, o := range keys {
		for _, n := range keys {
			for _, v := range vals {
				allOps = append(allOps, []string{"replace", o, n, v})
			}
		}
	}
	for _, k := range keys {
		allOps = append(allOps, []string{"delete", k})
	}
	// all rename functions Keys -> Keys, new value "r"
	var fns [][3]string
	for _, x := range keys {
		for _, y := range keys {
			for _, z := range keys {
				fns = append(fns, [3]string{x, y, z})
			}
		}
	}
	alphabet := append(append([]string{}, keys...), "zz")
	rng := newRand(seed, "c05trans")
	vts := []string{"ss", "sa"}
	ncases, drift, transitions := 0, 0, 0
	samples := []any{}
	readNDJSON(fl.str("cases", ""), func(_ int, c obj) {
		ncases++
		init, _ := c["init"].(string)
		hist := parseOps(c["hist"])
		want, _ := c["pairs"].(map[string]any)
		vt := vts[ncases%2] // alternate value types; both see every state over two seeds
		if fl.str("vt", "") != "" {
			vt = fl.str("vt", "")
		}
		// 1. the history itself, step by step
		tw.emit(obj{"op": "reset", "init": init, "panic": false, "case": ncases, "vt": vt})
		m := newMapUT(vt, init)
		for _, op := range hist {
			mutEvent(tw, m, op, true)
		}
		observeEvent(tw, m, alphabet, rng)
		// representation drift (reported, never a verdict)
		if p, _ := guarded(func() {
			k, v, d, _ := m.slots()
			ws, _ := c["slots"].([]any)
			same := len(ws) == len(k)
			for i := 0; same && i < len(ws); i++ {
				s := strs(ws[i])
				dd := "0"
				if d[i] {
					dd = "1"
				}
				// a tombstone's stale key/value are not part of the comparison
				if s[2] != dd || (dd == "0" && (s[0] != k[i] || s[1] != v[i])) {
					same = false
				}
			}
			if !same {
				drift++
			}
		}); p {
			drift++
		}
		// 2. every mutator instance from this state
		for _, op := range allOps {
			if init == "nil" && op[0] != "delete" {
				continue // documented to panic like Go's map: outside the property
			}
			m2, pan := rebuild(vt, init, hist)
			restoreEvent(tw, m2, pan, want, init, vt, hist)
			if pan {
				continue
			}
			mutEvent(tw, m2, op, true)
			observeEvent(tw, m2, alphabet, rng)
			transitions++
		}
		// 3. every rename-inside-Range function from this state
		if init != "nil" {
			for _, fn := range fns {
				m2, pan := rebuild(vt, init, hist)
				restoreEvent(tw, m2, pan, want, init, vt, hist)
				if pan {
					continue
				}
				f := map[string][2]string{}
				flist := []any{}
				for i, k := range keys {
					f[k] = [2]string{fn[i], "r"}
					flist = append(flist, []string{k, fn[i], "r"})
				}
				renameEvent(tw, m2, f, flist)
				observeEvent(tw, m2, alphabet, rng)
				transitions++
			}
		}
		if len(samples) < 3 && len(hist) >= 3 {
			samples = append(samples, obj{"init": init, "history": hist, "model_pairs": want})
		}
	})
	sum["cases"], sum["slot_drift"], sum["transitions"], sum["samples"] = ncases, drift, transitions, samples
}

func c05Random(tw *traceWriter, fl flags, seed int64, sum obj) {
	nhist := fl.int("histories", 20)
	maxOps := fl.int("ops", 2000)
	rng := newRand(seed, "c05random")
	alphaSizes := []int{4, 16, 64, 256}
	hostile := []string{"", "true", "12", "a b", "x: y", "null", "~", "0x1f", "é", "#c", "- x", "'q'", "\"dq\"", "k\tt"}
	totalOps, compactions := 0, 0
	samples := []any{}
	for h := 0; h < nhist; h++ {
		asz := alphaSizes[h%len(alphaSizes)]
		alphabet := make([]string, asz)
		for i := range alphabet {
			if i < len(hostile) && h%3 == 0 {
				alphabet[i] = hostile[i]
			} else {
				alphabet[i] = fmt.Sprintf("k%d", i)
			}
		}
		vt := []string{"ss", "sa"}[h%2]
		init := []string{"new", "zero", "new", "nil"}[rng.Intn(4)]
		if init == "nil" && h%8 != 7 {
			init = "zero"
		}
		nops := maxOps/4 + rng.Intn(maxOps*3/4+1)
		tw.emit(obj{"op": "reset", "init": init, "panic": false, "case": h, "vt": vt})
		m := newMapUT(vt, init)
		key := func() string { return alphabet[rng.Intn(len(alphabet))] }
		val := func() string { return fmt.Sprintf("v%d", rng.Intn(5)) }
		if vt == "ss" && init != "nil" && h%4 == 0 {
			// start from MapFromItems (with duplicate keys), and exercise the derived-map API
			items := [][2]string{}
			for i, n := 0, rng.Intn(2*asz+1); i < n; i++ {
				items = append(items, [2]string{key(), val()})
			}
			fm := fromItemsEvent(tw, items)
			deriveEvent(tw, fm)
			m = mapSS{fm}
		}
		phase, phaseLeft := 0, 0
		prevSlots := 0
		var first []any
		for i := 0; i < nops; i++ {
			if phaseLeft == 0 {
				phase = rng.Intn(4)
				phaseLeft = 1 + rng.Intn(2*asz+8)
			}
			phaseLeft--
			var op []string
			r := rng.Intn(100)
			if init == "nil" {
				op = []string{"delete", key()}
			} else {
				switch phase {
				case 0: // growth
					if r < 70 {
						op = []string{"set", key(), val()}
					} else if r < 90 {
						op = []string{"replace", key(), key(), val()}
					} else {
						op = []string{"delete", key()}
					}
				case 1: // mass deletion
					if r < 80 {
						op = []string{"delete", key()}
					} else {
						op = []string{"set", key(), val()}
					}
				case 2: // renames, incl. onto existing keys and self-renames
					if r < 70 {
						op = []string{"replace", key(), key(), val()}
					} else if r < 80 {
						k := key()
						op = []string{"replace", k, k, val()}
					} else if r < 90 {
						op = []string{"set", key(), val()}
					} else {
						op = []string{"delete", key()}
					}
				default: // mixed
					switch {
					case r < 40:
						op = []string{"set", key(), val()}
					case r < 70:
						op = []string{"delete", key()}
					default:
						op = []string{"replace", key(), key(), val()}
					}
				}
			}
			mutEvent(tw, m, op, i%64 == 63)
			totalOps++
			if len(first) < 6 {
				first = append(first, op)
			}
			if p, _ := guarded(func() {
				k, _, _, _ := m.slots()
				if len(k) < prevSlots-1 {
					compactions++
				}
				prevSlots = len(k)
			}); p {
				prevSlots = 0
			}
			if init != "nil" && asz <= 16 && rng.Intn(200) == 0 {
				// rename from inside the iteration callback
				f := map[string][2]string{}
				flist := []any{}
				for _, k := range alphabet {
					to := [2]string{key(), val()}
					if rng.Intn(3) == 0 {
						to[0] = k
					}
					f[k] = to
					flist = append(flist, []string{k, to[0], to[1]})
				}
				renameEvent(tw, m, f, flist)
			}
			if ss, ok := m.(mapSS); ok && (ss.m != nil && rng.Intn(700) == 0 || ss.m == nil && rng.Intn(40) == 0) {
				deriveEvent(tw, ss.m) // also on a nil map: the derived-map API accepts it like every observer does
			}
			if rng.Intn(500) == 0 {
				obsKeys := alphabet
				if len(obsKeys) > 24 {
					obsKeys = obsKeys[:24]
				}
				observeEvent(tw, m, obsKeys, rng)
			}
		}
		obsKeys := alphabet
		if len(obsKeys) > 24 {
			obsKeys = obsKeys[:24]
		}
		observeEvent(tw, m, obsKeys, rng)
		if len(samples) < 3 {
			samples = append(samples, obj{"alphabet": asz, "init": init, "value_type": vt, "ops": nops, "first_ops": first})
		}
	}
	sum["histories"], sum["ops"], sum["compactions_crossed"], sum["samples"] = nhist, totalOps, compactions, samples
}

// c05Steps replays explicit step lists (used by --replay and by the
// confirmation re-run of every rejected event).
func c05Steps(tw *traceWriter, fl flags, seed int64) {
	rng := newRand(seed, "c05steps")
	readNDJSON(fl.str("cases", ""), func(n int, c obj) {
		init, _ := c["init"].(string)
		vt, _ := c["vt"].(string)
		tw.emit(obj{"op": "reset", "init": init, "panic": false, "case": n, "vt": vt})
		m := newMapUT(vt, init)
		alpha := map[string]bool{}
		for _, op := range parseOps(c["prefix"]) {
			mutEvent(tw, m, op, true)
			for _, k := range op[1:] {
				alpha[k] = true
			}
		}
		steps, _ := c["steps"].([]any)
		for _, st := range steps {
			l, _ := st.([]any)
			name, _ := l[0].(string)
			switch name {
			case "observe":
				keys := []string{"zz"}
				for k := range alpha {
					keys = append(keys, k)
				}
				sort.Strings(keys)
				if len(keys) > 24 {
					keys = keys[:24]
				}
				observeEvent(tw, m, keys, rng)
			case "rangerename":
				fl, _ := l[1].([]any)
				f := map[string][2]string{}
				for _, x := range fl {
					t := strs(x)
					f[t[0]] = [2]string{t[1], t[2]}
				}
				renameEvent(tw, m, f, fl)
			default:
				op := strs(st)
				mutEvent(tw, m, op, true)
				for _, k := range op[1:] {
					alpha[k] = true
				}
			}
		}
	})
}
