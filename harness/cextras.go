package main

import (
	"encoding/json"
	"errors"
	"fmt"
	"math/rand"
	"sort"
	"strings"

	pipeline "github.com/buildkite/go-pipeline"
	ienv "github.com/buildkite/go-pipeline/internal/env"
	"github.com/buildkite/go-pipeline/ordered"
	"github.com/buildkite/go-pipeline/warning"
)

// Behaviour beyond the listed properties (spec/Extras.tla): the warning
// algebra, internal/env, the outcome table of ordered.Unmarshal, and the
// precedence of outline over inline fields when marshalling.

type xtree struct {
	W    bool     `json:"w"`
	Msg  string   `json:"msg"`
	Kids []*xtree `json:"kids"`
}

func (t *xtree) build() error {
	if !t.W {
		return errors.New(t.Msg)
	}
	kids := make([]error, len(t.Kids))
	for i, k := range t.Kids {
		kids[i] = k.build()
	}
	return warning.New(t.Msg, kids...)
}

func xrandTree(rng *rand.Rand, depth int) *xtree {
	if depth >= 3 || rng.Intn(3) == 0 {
		return &xtree{W: false, Msg: fmt.Sprintf("e%d", rng.Intn(100)), Kids: []*xtree{}}
	}
	t := &xtree{W: true, Msg: []string{"", "m" + fmt.Sprint(rng.Intn(9))}[rng.Intn(2)], Kids: []*xtree{}}
	for i, n := 0, rng.Intn(3); i < n; i++ {
		t.Kids = append(t.Kids, xrandTree(rng, depth+1))
	}
	return t
}

func xleaves(err error) int {
	if err == nil {
		return 0
	}
	if u, ok := err.(interface{ Unwrap() []error }); ok {
		n := 0
		for _, e := range u.Unwrap() {
			n += xleaves(e)
		}
		return n
	}
	return 1
}

type xStruct struct {
	A string `yaml:"a"`
}

func xUnmarshalOutcome(s, d string) (out string, panicked bool) {
	var src any
	switch s {
	case "nil":
		src = nil
	case "string":
		src = "str"
	case "int":
		src = 7
	case "float":
		src = 2.5
	case "bool":
		src = true
	case "seq":
		src = []any{"a", 1, true}
	case "map":
		src = ordered.MapFromItems(ordered.TupleSA{Key: "a", Value: "x"}, ordered.TupleSA{Key: "b", Value: []any{1}})
	case "gomap":
		src = map[string]any{"a": 1}
	}
	var dst any
	switch d {
	case "nil_iface":
		dst = nil
	case "string_value":
		dst = "value"
	case "nil_ptr_string":
		dst = (*string)(nil)
	case "ptr_string":
		dst = new(string)
	case "ptr_int":
		dst = new(int)
	case "ptr_float":
		dst = new(float64)
	case "ptr_bool":
		dst = new(bool)
	case "ptr_any":
		dst = new(any)
	case "ptr_slice_string":
		dst = new([]string)
	case "ptr_slice_any":
		dst = new([]any)
	case "ptr_slice_int":
		dst = new([]int)
	case "ptr_slice_bool":
		dst = new([]bool)
	case "ptr_slice_float":
		dst = new([]float64)
	case "slice_any_value":
		dst = []any{}
	case "ptr_map_sa":
		dst = new(map[string]any)
	case "ptr_map_ss":
		dst = new(map[string]string)
	case "ptr_map_int_key":
		dst = new(map[int]string)
	case "map_sa_value":
		dst = map[string]any{}
	case "nil_map_sa_value":
		dst = map[string]any(nil)
	case "ptr_struct":
		dst = new(xStruct)
	case "nil_ptr_struct":
		dst = (*xStruct)(nil)
	case "ptr_ptr_struct":
		dst = new(*xStruct)
	case "ptr_ordered":
		dst = ordered.NewMap[string, any](0)
	case "nil_ptr_ordered":
		dst = (*ordered.MapSA)(nil)
	default:
		fatal("bad dst kind %s", d)
	}
	var err error
	panicked, _ = guarded(func() { err = ordered.Unmarshal(src, dst) })
	switch {
	case panicked:
		return "panic", true
	case err == nil:
		return "ok", false
	case errors.Is(err, ordered.ErrIntoNil):
		return "ErrIntoNil", false
	case errors.Is(err, ordered.ErrIntoNonPointer):
		return "ErrIntoNonPointer", false
	case errors.Is(err, ordered.ErrNotSettable):
		return "ErrNotSettable", false
	case errors.Is(err, ordered.ErrIncompatibleTypes):
		return "ErrIncompatibleTypes", false
	case errors.Is(err, ordered.ErrUnsupportedSrc):
		return "ErrUnsupportedSrc", false
	}
	return "other:" + err.Error(), false
}

func runCExtras(args []string) {
	fl := parseFlags(args)
	tw := newTraceWriter(fl.str("out", ""))
	defer tw.close()
	rng := newRand(int64(fl.int("seed", 1)), "extras")
	n := fl.int("n", 300)
	// warning algebra
	for i := 0; i < n; i++ {
		errs := []*xtree{}
		for j, m := 0, rng.Intn(4); j < m; j++ {
			errs = append(errs, xrandTree(rng, 1))
		}
		built := make([]error, len(errs))
		for j, e := range errs {
			built[j] = e.build()
		}
		res := warning.Wrap(built...)
		kind := "new"
		switch {
		case res == nil:
			kind = "nil"
		case len(built) == 1 && res == built[0]:
			kind = "same"
		}
		tw.emit(obj{"kind": "wrap", "errs": errs, "result": kind, "iswarning": warning.Is(res), "leaves": xleaves(res)})
		w := xrandTree(rng, 0)
		w.W = true
		bw := w.build().(*warning.Warning)
		r2 := bw.Wrapf("ctx %d", i)
		k2 := "wrapped"
		if r2 == bw {
			k2 = "inplace"
		}
		tw.emit(obj{"kind": "wrapf", "w": w, "result": k2, "leaves": xleaves(r2)})
		e := xrandTree(rng, 1)
		be := e.build()
		tw.emit(obj{"kind": "isas", "e": e, "is": warning.Is(be), "as": warning.As(be) != nil, "isnil": warning.Is(nil), "asnil": warning.As(nil) != nil})
	}
	// internal/env
	names := []string{"PATH", "Path", "path", "HOME", "home", "x", "X", "Ünï", "ünï"}
	for i := 0; i < n; i++ {
		ins := rng.Intn(2) == 0
		e := ienv.New(ienv.CaseSensitive(!ins))
		ops := []any{}
		for j, m := 0, rng.Intn(8); j < m; j++ {
			k, v := names[rng.Intn(len(names))], fmt.Sprintf("v%d", rng.Intn(5))
			e.Set(k, v)
			ops = append(ops, []any{k, v, strings.ToUpper(k)})
		}
		gets := []any{}
		for _, k := range names {
			v, ok := e.Get(k)
			gets = append(gets, []any{k, ok, v, strings.ToUpper(k)})
		}
		tw.emit(obj{"kind": "env", "insensitive": ins, "ops": ops, "gets": gets})
	}
	// ordered.Unmarshal: the whole (source kind, destination kind) table
	srcs := []string{"nil", "string", "int", "float", "bool", "seq", "map", "gomap"}
	dsts := []string{"nil_iface", "string_value", "nil_ptr_string", "ptr_string", "ptr_int", "ptr_float", "ptr_bool", "ptr_any",
		"ptr_slice_string", "ptr_slice_any", "ptr_slice_int", "ptr_slice_bool", "ptr_slice_float", "slice_any_value",
		"ptr_map_sa", "ptr_map_ss", "ptr_map_int_key", "map_sa_value", "nil_map_sa_value", "ptr_struct", "nil_ptr_struct", "ptr_ptr_struct",
		"ptr_ordered", "nil_ptr_ordered"}
	for _, s := range srcs {
		for _, d := range dsts {
			out, p := xUnmarshalOutcome(s, d)
			tw.emit(obj{"kind": "unmarshal", "s": s, "d": d, "outcome": out, "panic": p})
		}
	}
	// outline beats inline; yaml:"-" never appears
	for i := 0; i < n; i++ {
		inl := map[string]any{}
		inlJ := obj{}
		for _, k := range []string{"key", "label", "command", "zz", "agents", "env"} {
			if rng.Intn(2) == 0 {
				v := fmt.Sprintf("inline-%s-%d", k, rng.Intn(9))
				inl[k], inlJ[k] = v, v
			}
		}
		cs := &pipeline.CommandStep{Command: "c" + fmt.Sprint(rng.Intn(9)), RemainingFields: inl}
		outl := obj{"command": cs.Command}
		if rng.Intn(2) == 0 {
			cs.Key = "K"
			outl["key"] = "K"
		}
		if rng.Intn(2) == 0 {
			cs.Label = "L"
			outl["label"] = "L"
		}
		ev := obj{"kind": "inline", "outline": outl, "inline": inlJ, "skipped": []string{}, "ok": false, "keys": []string{}, "pairs": []any{}}
		p, _ := guarded(func() {
			b, err := json.Marshal(cs)
			if err != nil {
				return
			}
			var m map[string]any
			if json.Unmarshal(b, &m) != nil {
				return
			}
			keys := []string{}
			pairs := []any{}
			for k, v := range m {
				keys = append(keys, k)
				if s, ok := v.(string); ok {
					pairs = append(pairs, []any{k, s})
				}
			}
			sort.Strings(keys)
			ev["ok"], ev["keys"], ev["pairs"] = true, keys, pairs
		})
		ev["panic"] = p
		tw.emit(ev)
	}
	// ToMapRecursive / AssertValues on trees of ordered maps with tombstones
	hasOrdered := func(x any) bool { return false }
	var ho func(x any) bool
	ho = func(x any) bool {
		switch t := x.(type) {
		case *ordered.MapSA:
			return true
		case map[string]any:
			for _, v := range t {
				if ho(v) {
					return true
				}
			}
		case []any:
			for _, v := range t {
				if ho(v) {
					return true
				}
			}
		}
		return false
	}
	hasOrdered = ho
	for i := 0; i < n; i++ {
		m := tombstoneMap(rng, 2+rng.Intn(12))
		in := toAV(m)
		var out any
		p, _ := guarded(func() { out = ordered.ToMapRecursive(m) })
		ev := obj{"kind": "tomaprec", "in": in, "out": obj{"t": "z"}, "noordered": false, "inafter": toAV(m), "panic": p}
		if !p {
			ev["out"], ev["noordered"] = objAV(out), !hasOrdered(out)
		}
		tw.emit(ev)
		// AssertValues[string]: succeeds exactly when every value is a string
		am := ordered.NewMap[string, any](0)
		for j, k := 0, rng.Intn(6); j < k; j++ {
			var v any = fmt.Sprintf("s%d", j)
			if rng.Intn(5) == 0 {
				v = []any{1, true, nil, 2.5, am}[rng.Intn(4)]
			}
			am.Set(fmt.Sprintf("k%d", rng.Intn(8)), v)
		}
		if rng.Intn(3) == 0 {
			am.Delete("k1")
		}
		ev2 := obj{"kind": "assertvalues", "in": toAV(am), "ok": false, "out": obj{"t": "z"}}
		p2, _ := guarded(func() {
			ms, err := ordered.AssertValues[string](am)
			ev2["ok"] = err == nil
			if err == nil {
				kv := []any{}
				ms.Range(func(k, v string) error { kv = append(kv, []any{k, avStr(v)}); return nil })
				ev2["out"] = obj{"t": "m", "kv": kv}
			}
		})
		ev2["panic"] = p2
		tw.emit(ev2)
	}
	// NewScalarStep: the whole table plus near misses
	for _, sc := range []string{"wait", "waiter", "block", "input", "manual", "", "Wait", "wait ", "command", "trigger", "group", "waiter2", "~", "null", "true"} {
		ev := obj{"kind": "scalarstep", "s": sc, "steptype": "", "warned": false, "scalar": ""}
		p, _ := guarded(func() {
			st, err := pipeline.NewScalarStep(sc)
			ev["warned"] = err != nil && warning.Is(err)
			ev["harderr"] = err != nil && !warning.Is(err)
			switch t := st.(type) {
			case *pipeline.WaitStep:
				ev["steptype"], ev["scalar"] = "wait", t.Scalar
			case *pipeline.InputStep:
				ev["steptype"], ev["scalar"] = "input", t.Scalar
			case *pipeline.UnknownStep:
				ev["steptype"] = "unknown"
				ev["scalar"], _ = t.Contents.(string)
			default:
				ev["steptype"] = fmt.Sprintf("%T", st)
			}
		})
		ev["panic"] = p
		tw.emit(ev)
	}
	writeSummary(fl.str("summary", ""), obj{"events": tw.n})
}
