package main

import (
	"math"
	"regexp"
	"bytes"
	"encoding/json"
	"fmt"
	"math/rand"
	"strconv"
)

// ---------------------------------------------------------------------------
// Pipeline document generator (grammar-driven), shared by the checks that need
// whole documents (C04, C03/C08/C09, C13, C02). A document is a tree of
// orderedJSON (mappings, in document order), []any, and scalars; it renders to
// JSON with asciiJSON and converts to the abstract value (AV) encoding that
// crosses the Go/TLC boundary:
//
//	{"t":"s","v":"text"} {"t":"n","v":"31"} {"t":"b","v":true} {"t":"z"}
//	{"t":"q","e":[AV...]}  {"t":"m","kv":[[key,AV]...]}   (pairs in document order)
// ---------------------------------------------------------------------------

type docGen struct {
	rng *rand.Rand
	// str returns the string to put at a position of the given class.
	str func(class string) string
	// feature switches
	bigMaps    bool // pad Go-map-backed levels to 9..40 keys
	maxDepth   int  // nesting of free-form values
	noUnknown  bool // never generate unknown steps (for signing)
	pathPlugin bool // plugin sources are paths ("./x"), which FullSource leaves as written
	oneCommand bool // always a single `command` string
	noNullItems bool // never a null inside a list of scalars
	noSig      bool
	plain      bool // scalars are strings and small non-negative integers only
	typed      bool // also steps whose kind comes from an explicit `type` key
	scalarCfg  bool // plugin configs may be scalars (false, 0, "", ...)
	scalarEnv  bool // env and matrix values may be any scalar kind, not only strings
	afterSig   bool // the step generated last carries a signature record
	plainNums  bool // floats always have a fractional part (an integral float cannot survive JSON as a float)
}

func (g *docGen) pick(n int) int { return g.rng.Intn(n) }

func (g *docGen) scalar() any {
	if g.plain {
		if g.pick(3) == 0 {
			return g.pick(50)
		}
		return g.str("val")
	}
	switch g.pick(9) {
	case 8:
		if g.plain || g.plainNums {
			return g.pick(100)
		}
		return uint64(18446744073709551000) + uint64(g.pick(600)) // beyond MaxInt64: yaml.v3 reads it as a uint64
	case 0:
		return g.pick(100) - 20
	case 1:
		return []any{true, false}[g.pick(2)]
	case 2:
		return nil
	case 3:
		if g.plainNums {
			return float64(g.pick(1000)) + 0.5
		}
		return float64(g.pick(1000)) / 8
	default:
		return g.str("val")
	}
}

func (g *docGen) anyValue(depth int) any {
	if depth >= g.maxDepth {
		return g.scalar()
	}
	switch g.pick(6) {
	case 0:
		n := g.pick(4)
		l := make([]any, 0, n)
		for i := 0; i < n; i++ {
			l = append(l, g.anyValue(depth+1))
		}
		return l
	case 1, 2:
		if g.pick(8) == 0 {
			return orderedJSON{} // an EMPTY mapping as a nested value: not null, not absent - in either output format
		}
		return g.freeMap(depth+1, 1+g.pick(3))
	default:
		return g.scalar()
	}
}

func (g *docGen) freeMap(depth, n int) orderedJSON {
	pairs := [][2]any{}
	for i := 0; i < n; i++ {
		pairs = append(pairs, [2]any{g.str("key"), g.anyValue(depth)})
	}
	return orderedJSON(pairs)
}

// padded returns n (or, with bigMaps, 9..40) entries for a Go-map-backed level.
func (g *docGen) mapSize(n int) int {
	if g.bigMaps && g.pick(2) == 0 {
		return 9 + g.pick(32)
	}
	return n
}

func (g *docGen) envMap() orderedJSON {
	pairs := [][2]any{}
	for i, n := 0, g.mapSize(1+g.pick(3)); i < n; i++ {
		var v any = g.str("envval")
		if g.scalarEnv && g.pick(3) == 0 {
			v = g.scalar()
		}
		pairs = append(pairs, [2]any{g.str("envname"), v})
	}
	return orderedJSON(pairs)
}

func (g *docGen) pluginSource() string { return g.str("pluginsrc") }

func (g *docGen) pluginConfig() any {
	switch g.pick(6) {
	case 0:
		return nil
	case 1:
		if g.scalarCfg {
			return []any{false, 0, "", "cfg", 5, true}[g.pick(6)] // a scalar config is data too
		}
		return nil
	case 2:
		if g.pick(2) == 0 {
			return g.str("val") // a config that is one bare string (expanded / kept like any other string)
		}
		return g.freeMap(1, g.mapSize(1+g.pick(3)))
	default:
		return g.freeMap(1, g.mapSize(1+g.pick(3)))
	}
}

func (g *docGen) plugins() any {
	n := 1 + g.pick(3)
	switch g.pick(3) {
	case 0: // one mapping (legacy, order matters)
		pairs := [][2]any{}
		for i := 0; i < n; i++ {
			pairs = append(pairs, [2]any{g.pluginSource(), g.pluginConfig()})
		}
		return orderedJSON(pairs)
	default: // list of one-entry mappings / bare strings
		l := []any{}
		used := []string{}
		for i := 0; i < n; i++ {
			src := g.pluginSource()
			if len(used) > 0 && g.pick(4) == 0 {
				src = used[g.pick(len(used))] // the same plugin listed twice is two entries
			}
			used = append(used, src)
			if g.pick(4) == 0 {
				l = append(l, src)
			} else {
				l = append(l, orderedJSON([][2]any{{src, g.pluginConfig()}}))
			}
		}
		return l
	}
}

func (g *docGen) matrix() any {
	mval := func(allowFloat bool) any {
		if g.scalarEnv {
			switch g.pick(6) {
			case 0:
				return g.pick(40)
			case 1:
				return g.pick(2) == 0
			case 2:
				if allowFloat {
					return float64(g.pick(100)) + 0.25
				}
			}
		}
		return g.str("matrixval")
	}
	vals := func() []any {
		l := []any{}
		for i, n := 0, 1+g.pick(3); i < n; i++ {
			l = append(l, mval(true))
			if !g.noNullItems && g.pick(9) == 0 {
				l = append(l, nil) // a null item of a list of scalars is the empty string
			}
		}
		return l
	}
	if g.pick(3) == 0 {
		return vals() // matrix: [a, b]
	}
	if g.pick(6) == 0 {
		// a matrix mapping WITHOUT setup: empty, only extras, only adjustments (one of them without `with`)
		if g.pick(3) == 0 {
			// ... or empty in one of its spellings: all of them are "no matrix" - also after the text has been through the library once
			return []any{orderedJSON{}, orderedJSON{{"setup", orderedJSON{}}}, orderedJSON{{"setup", orderedJSON{}}, {"adjustments", []any{}}}, orderedJSON{{"adjustments", []any{}}}}[g.pick(4)]
		}
		out := [][2]any{}
		if g.pick(2) == 0 {
			out = append(out, [2]any{g.str("key"), g.anyValue(1)})
		}
		if g.pick(2) == 0 {
			adjs := []any{orderedJSON{{"with", orderedJSON{{g.str("dim"), mval(false)}}}, {"skip", true}}}
			if g.pick(2) == 0 {
				adjs = append(adjs, orderedJSON{{"skip", g.str("skip")}})
			}
			out = append(out, [2]any{"adjustments", adjs})
		}
		return orderedJSON(out)
	}
	anon := g.pick(2) == 0
	var setup any
	dims := []string{}
	if anon {
		setup = vals()
		dims = []string{""}
	} else {
		pairs := [][2]any{}
		for i, n := 0, g.mapSize(1+g.pick(2)); i < n; i++ {
			d := g.str("dim")
			dims = append(dims, d)
			pairs = append(pairs, [2]any{d, vals()})
		}
		setup = orderedJSON(pairs)
	}
	out := [][2]any{{"setup", setup}}
	if g.pick(2) == 0 {
		adjs := []any{}
		for i, n := 0, 1+g.pick(2); i < n; i++ {
			var with any
			if anon && g.pick(2) == 0 {
				with = mval(false)
				if g.pick(4) == 0 {
					with = "" // the EMPTY value of the anonymous dimension (`matrix: ["", "-debug"]`) is a value like any other
				}
			} else {
				wp := [][2]any{}
				for _, d := range dims {
					wp = append(wp, [2]any{d, mval(false)})
				}
				with = orderedJSON(wp)
			}
			ap := [][2]any{{"with", with}}
			if g.pick(6) == 0 {
				ap = [][2]any{} // an adjustment written without `with`
			}
			switch g.pick(4) {
			case 0:
				ap = append(ap, [2]any{"skip", true})
			case 1:
				ap = append(ap, [2]any{"skip", g.str("skip")})
			}
			if g.pick(2) == 0 {
				ap = append(ap, [2]any{g.str("key"), g.anyValue(1)})
			}
			adjs = append(adjs, orderedJSON(ap))
		}
		out = append(out, [2]any{"adjustments", adjs})
	}
	if g.pick(3) == 0 {
		out = append(out, [2]any{g.str("key"), g.anyValue(1)})
	}
	if len(out) == 1 && g.pick(3) == 0 {
		out = append(out, [2]any{"adjustments", []any{}}) // written, but empty: same as absent
	}
	return orderedJSON(out)
}

func (g *docGen) cache() any {
	switch g.pick(4) {
	case 0:
		return g.str("cachepath")
	case 1:
		return []any{g.str("cachepath"), g.str("cachepath")}
	case 2:
		return false
	default:
		p := [][2]any{{"paths", []any{g.str("cachepath")}}}
		if g.pick(2) == 0 {
			p = append(p, [2]any{"name", g.str("cachename")})
		}
		if g.pick(2) == 0 {
			p = append(p, [2]any{"size", g.str("cachesize")})
		}
		if g.pick(2) == 0 {
			p = append(p, [2]any{g.str("key"), g.anyValue(1)})
		}
		return orderedJSON(p)
	}
}

func (g *docGen) extras(pairs [][2]any, n int) [][2]any {
	if g.afterSig || g.pick(12) == 0 {
		// unknown keys NAMED like the fields of a typed record that stands elsewhere in the document (the signature record,
		// the cache settings, the matrix): in this mapping they are ordinary keys. Right after a step that carries a
		// signature they are there more often than not (whatever decoding that record left behind must not claim them).
		names := []string{"value", "algorithm", "signed_fields", "paths", "setup", "adjustments", "with"}
		if g.afterSig {
			names = names[:3]
		}
		g.afterSig = false
		g.rng.Shuffle(len(names), func(i, j int) { names[i], names[j] = names[j], names[i] })
		for _, k := range names[:1+g.pick(2)] {
			have := false
			for _, q := range pairs {
				have = have || q[0] == k
			}
			if !have {
				pairs = append(pairs, [2]any{k, g.anyValue(1)})
			}
		}
	}
	if g.pick(8) == 0 {
		// an unknown key that differs from a typed field's key in letter case only: keys are matched exactly
		k := []string{"Label", "Key", "LABEL", "kEY", "Name", "Identifier"}[g.pick(6)]
		have := false
		for _, q := range pairs {
			have = have || q[0] == k
		}
		if !have {
			pairs = append(pairs, [2]any{k, g.str("label")})
		}
	}
	for i := 0; i < n; i++ {
		pairs = append(pairs, [2]any{g.str("key"), g.anyValue(0)})
	}
	return pairs
}

// nullItem: now and then a null sits between the items of a list of scalars (it reads as the empty string).
func (g *docGen) nullItem(l []any) []any {
	if g.noNullItems || g.pick(7) != 0 {
		return l
	}
	return []any{l[0], nil, l[1]}
}

func (g *docGen) commandStep() orderedJSON {
	p := [][2]any{}
	if !g.oneCommand && g.pick(9) == 0 {
		// an EMPTY command (written "", or as an empty list): the step is still a command step, and says so in its
		// normal form - nothing else in it may be telling
		p = append(p, [][2]any{{"command", ""}, {"commands", []any{}}, {"command", []any{}}, {"commands", ""}}[g.pick(4)])
	} else if g.oneCommand || g.pick(2) == 0 {
		p = append(p, [2]any{"command", g.str("command")})
	} else if g.pick(2) == 0 {
		p = append(p, [2]any{"commands", g.nullItem([]any{g.str("command"), g.str("command")})})
	} else {
		p = append(p, [2]any{"command", g.nullItem([]any{g.str("command"), g.str("command")})})
	}
	// any combination of a primary key and its aliases
	for _, k := range []string{"key", "id", "identifier"} {
		if g.pick(3) == 0 {
			p = append(p, [2]any{k, g.str("stepkey")})
		}
	}
	for _, k := range []string{"label", "name"} {
		if g.pick(3) == 0 {
			p = append(p, [2]any{k, g.str("label")})
		}
	}
	if g.pick(2) == 0 {
		p = append(p, [2]any{"env", g.envMap()})
	}
	if g.pick(2) == 0 {
		p = append(p, [2]any{"plugins", g.plugins()})
	}
	if g.pick(3) == 0 {
		p = append(p, [2]any{"matrix", g.matrix()})
	}
	if g.pick(3) == 0 {
		p = append(p, [2]any{"cache", g.cache()})
	}
	if !g.noSig && g.pick(4) == 0 {
		p = append(p, [2]any{"signature", orderedJSON([][2]any{{"algorithm", g.str("sig")},
			{"signed_fields", []any{g.str("sig"), g.str("sig")}}, {"value", g.str("sig")}})})
	}
	p = g.extras(p, g.mapSize(g.pick(3)))
	if g.pick(6) == 0 {
		// a key of a LOWER-priority family rides along as an ordinary extra key: the step is still a command step,
		// wherever that key stands in the document and wherever the marshaller puts it
		p = append(p, [][2]any{{"wait", nil}, {"waiter", "w"}, {"block", "b"}, {"trigger", "t"}, {"manual", nil}}[g.pick(5)])
	}
	g.rng.Shuffle(len(p), func(i, j int) { p[i], p[j] = p[j], p[i] })
	for _, q := range p {
		if q[0] == "signature" {
			g.afterSig = true
		}
	}
	return orderedJSON(p)
}

func (g *docGen) contentStep(kindKey string) orderedJSON {
	var first [2]any
	switch kindKey {
	case "wait", "waiter":
		first = [2]any{kindKey, nil}
	case "trigger":
		first = [2]any{kindKey, g.str("val")}
	default:
		first = [2]any{kindKey, g.str("label")}
	}
	p := g.extras([][2]any{first}, g.mapSize(1+g.pick(3)))
	if g.pick(5) == 0 {
		// likewise for wait / input steps: a key of a later family is just another key of the step
		lower := map[string][][2]any{"wait": {{"block", "b"}, {"trigger", "t"}, {"input", "i"}}, "waiter": {{"manual", "m"}, {"trigger", "t"}},
			"block": {{"trigger", "t"}}, "input": {{"trigger", "t"}}, "manual": {{"trigger", "t"}}}[kindKey]
		if len(lower) > 0 {
			x := lower[g.pick(len(lower))]
			p = append([][2]any{x}, p...) // written BEFORE the key that decides
		}
	}
	return orderedJSON(p)
}

func (g *docGen) step(depth int) any {
	r := g.pick(13)
	switch {
	case r < 5:
		return g.commandStep()
	case r == 5:
		return []any{"wait", "waiter", "block", "input", "manual"}[g.pick(5)]
	case r == 6:
		return g.contentStep([]string{"wait", "waiter"}[g.pick(2)])
	case r == 7:
		return g.contentStep([]string{"block", "input", "manual"}[g.pick(3)])
	case r == 8:
		return g.contentStep("trigger")
	case r == 9 && depth < 3:
		p := [][2]any{{[]string{"group", "group", "group"}[g.pick(3)], g.str("label")}}
		if g.pick(5) == 0 {
			// `group: ~` - a group without a name of its own; a `label` / `name` written next to it stays what it is
			p[0][1] = nil
			if g.pick(3) > 0 {
				p = append(p, [2]any{[]string{"label", "name"}[g.pick(2)], g.str("label")})
			}
		}
		if g.pick(2) == 0 {
			p = append(p, [2]any{"key", g.str("stepkey")})
		}
		switch g.pick(6) {
		case 0: // no `steps` key at all
		case 1:
			p = append(p, [2]any{"steps", nil})
		case 2:
			p = append(p, [2]any{"steps", []any{}})
		default:
			p = append(p, [2]any{"steps", g.steps(depth+1, 1+g.pick(3))})
		}
		for _, k := range []string{"id", "identifier", "label", "name"} {
			have := false
			for _, q := range p {
				have = have || q[0] == k
			}
			if !have && g.pick(5) == 0 {
				p = append(p, [2]any{k, g.str("stepkey")})
			}
		}
		p = g.extras(p, g.pick(2))
		return orderedJSON(p)
	case r == 10 && !g.noUnknown:
		return g.freeMap(0, 1+g.pick(3)) // no kind-determining key: an unknown step
	case r == 12 && !g.noUnknown:
		// a bare scalar that is none of the five scalar steps: kept (with a warning) as an unknown step whose content is that string
		s := g.str("val")
		for _, known := range []string{"wait", "waiter", "block", "input", "manual", ""} {
			if s == known {
				s = "scalar " + s
			}
		}
		return s
	case r == 11 && g.typed:
		// the kind given by an explicit `type` key (no kind-determining key needed)
		t := []string{"wait", "waiter", "block", "input", "manual", "trigger", "command", "script"}[g.pick(8)]
		p := g.extras([][2]any{{"type", t}}, 1+g.pick(3))
		g.rng.Shuffle(len(p), func(i, j int) { p[i], p[j] = p[j], p[i] })
		return orderedJSON(p)
	default:
		return g.commandStep()
	}
}

func (g *docGen) steps(depth, n int) []any {
	l := make([]any, 0, n)
	for i := 0; i < n; i++ {
		l = append(l, g.step(depth))
	}
	if g.typed && g.pick(3) == 0 {
		// several steps of one family, each selected by `type`, each with its own keys
		fam := [][]string{{"wait", "waiter"}, {"block", "input", "manual"}, {"trigger"}}[g.pick(3)]
		for i, m := 0, 2+g.pick(2); i < m; i++ {
			p := g.extras([][2]any{{"type", fam[g.pick(len(fam))]}}, 1+g.pick(2))
			l = append(l, orderedJSON(p))
		}
	}
	return l
}

func (g *docGen) pipeline() any {
	steps := g.steps(0, 1+g.pick(4))
	if g.pick(6) == 0 {
		return steps // bare step list
	}
	p := [][2]any{}
	if g.pick(2) == 0 {
		p = append(p, [2]any{"env", g.envMap()})
	}
	p = append(p, [2]any{"steps", steps})
	p = g.extras(p, g.mapSize(g.pick(3)))
	if g.pick(5) == 0 {
		// the very LAST thing the marshalled pipeline says is a string that ends in line feeds: they are part of the string
		p = append(p, [2]any{"zzzz_last", []string{"tail line\nend\n\n", "x\n\n\n", "one\n"}[g.pick(3)]})
	}
	g.rng.Shuffle(len(p), func(i, j int) { p[i], p[j] = p[j], p[i] })
	return orderedJSON(p)
}

// ---------------------------------------------------------------------------
// AV conversion
// ---------------------------------------------------------------------------

func avStr(s string) obj { return obj{"t": "s", "v": s} }

// avFromDoc converts a generated document (orderedJSON / []any / scalars) to AV.
func avFromDoc(d any) any {
	switch x := d.(type) {
	case orderedJSON:
		kv := []any{}
		for _, p := range x {
			kv = append(kv, []any{p[0], avFromDoc(p[1])})
		}
		return obj{"t": "m", "kv": kv}
	case []any:
		e := []any{}
		for _, v := range x {
			e = append(e, avFromDoc(v))
		}
		return obj{"t": "q", "e": e}
	case string:
		return avStr(x)
	case nil:
		return obj{"t": "z"}
	case bool:
		return obj{"t": "b", "v": x}
	case int:
		return obj{"t": "n", "v": strconv.Itoa(x)}
	case uint64:
		return obj{"t": "n", "v": strconv.FormatUint(x, 10)}
	case float64:
		return obj{"t": "n", "v": canonNum(x)}
	}
	panic(fmt.Sprintf("avFromDoc: %T", d))
}

func canonNum(f float64) string {
	if f == math.Trunc(f) && math.Abs(f) < 1e21 {
		// integer-valued: plain digits, as encoding/json writes such a float64 and as an integer is written anyway
		if f == 0 {
			return "0"
		}
		return strconv.FormatFloat(f, 'f', -1, 64)
	}
	return strconv.FormatFloat(f, 'g', -1, 64)
}

var intLiteralRE = regexp.MustCompile(`^-?[0-9]+$`)

// avFromJSON converts JSON text to AV with an order-preserving token reader
// (the harness's own; deliberately not ordered.Map).
func avFromJSON(b []byte) (any, error) {
	d := json.NewDecoder(bytes.NewReader(b))
	d.UseNumber()
	v, err := avRead(d)
	if err != nil {
		return nil, err
	}
	if d.More() {
		return nil, fmt.Errorf("trailing data")
	}
	return v, nil
}

func avRead(d *json.Decoder) (any, error) {
	t, err := d.Token()
	if err != nil {
		return nil, err
	}
	switch x := t.(type) {
	case json.Delim:
		switch x {
		case '{':
			kv := []any{}
			for d.More() {
				kt, err := d.Token()
				if err != nil {
					return nil, err
				}
				v, err := avRead(d)
				if err != nil {
					return nil, err
				}
				kv = append(kv, []any{kt.(string), v})
			}
			if _, err := d.Token(); err != nil {
				return nil, err
			}
			return obj{"t": "m", "kv": kv}, nil
		case '[':
			e := []any{}
			for d.More() {
				v, err := avRead(d)
				if err != nil {
					return nil, err
				}
				e = append(e, v)
			}
			if _, err := d.Token(); err != nil {
				return nil, err
			}
			return obj{"t": "q", "e": e}, nil
		}
		return nil, fmt.Errorf("unexpected delimiter %v", x)
	case string:
		return avStr(x), nil
	case json.Number:
		if lit := x.String(); intLiteralRE.MatchString(lit) {
			// an integer literal is kept digit for digit (int64 values beyond 2^53 are exact in the library's output)
			if lit == "-0" {
				lit = "0"
			}
			return obj{"t": "n", "v": lit}, nil
		}
		f, err := x.Float64()
		if err != nil {
			return obj{"t": "n", "v": x.String()}, nil
		}
		return obj{"t": "n", "v": canonNum(f)}, nil
	case bool:
		return obj{"t": "b", "v": x}, nil
	case nil:
		return obj{"t": "z"}, nil
	}
	return nil, fmt.Errorf("unexpected token %T", t)
}

// docFromAV: AV -> generated-document form (orderedJSON / []any / scalars).
func docFromAV(a any) any {
	m := a.(map[string]any)
	switch m["t"] {
	case "s":
		return m["v"].(string)
	case "n":
		s := m["v"].(string)
		if i, err := strconv.Atoi(s); err == nil {
			return i
		}
		if u, err := strconv.ParseUint(s, 10, 64); err == nil {
			return u // (an integer beyond MaxInt64)
		}
		f, _ := strconv.ParseFloat(s, 64)
		return f
	case "b":
		return m["v"].(bool)
	case "z":
		return nil
	case "q":
		l, _ := m["e"].([]any)
		out := make([]any, 0, len(l))
		for _, x := range l {
			out = append(out, docFromAV(x))
		}
		return out
	case "m":
		kv, _ := m["kv"].([]any)
		out := orderedJSON{}
		for _, p := range kv {
			pp := p.([]any)
			out = append(out, [2]any{pp[0], docFromAV(pp[1])})
		}
		return out
	}
	panic("docFromAV")
}
