package main

import (
	"encoding/json"
	"fmt"
	"math/rand"
	"sort"
	"strings"

	pipeline "github.com/buildkite/go-pipeline"
	"github.com/buildkite/go-pipeline/warning"
)

// C11: matrix permutation validation. Cases (matrix, permutation) come from
// TLC's small-scope enumeration or from the seeded generator; each is rendered
// as a one-step pipeline document, parsed with the real Parse, and the real
// CommandStep.InterpolateMatrixPermutation is called.

func asMap(x any) map[string]any {
	if m, ok := x.(map[string]any); ok {
		return m
	}
	return map[string]any{} // TLC prints the empty function as []
}

func sortedKeys[V any](m map[string]V) []string {
	ks := make([]string, 0, len(m))
	for k := range m {
		ks = append(ks, k)
	}
	sort.Strings(ks)
	return ks
}

func skipValue(kind string, rng *rand.Rand) (any, bool) {
	switch kind {
	case "absent":
		return nil, false
	case "null":
		return nil, true
	case "false":
		return false, true
	case "true":
		return true, true
	case "string":
		return []string{"", "false", "flaky on arm", "true", "0"}[rng.Intn(5)], true
	}
	fatal("bad skip kind %q", kind)
	return nil, false
}

func matrixToken(dim string, rng *rand.Rand) string {
	sp := []string{"", " ", "  ", "\t"}
	a, b := sp[rng.Intn(len(sp))], sp[rng.Intn(len(sp))]
	if dim == "" {
		return "{{" + a + "matrix" + b + "}}"
	}
	return "{{" + a + "matrix." + dim + b + "}}"
}

// matrixJSON renders the abstract matrix in one of its written forms.
func matrixJSON(m map[string]any, rng *rand.Rand) any {
	setup := asMap(m["setup"])
	adjs, _ := m["adjs"].([]any)
	_, anonOnly := setup[""]
	anonOnly = anonOnly && len(setup) == 1
	var setupJ any
	if anonOnly {
		setupJ = setup[""]
	} else {
		pairs := [][2]any{}
		ks := sortedKeys(setup)
		rng.Shuffle(len(ks), func(i, j int) { ks[i], ks[j] = ks[j], ks[i] })
		for _, k := range ks {
			pairs = append(pairs, [2]any{k, setup[k]})
		}
		setupJ = orderedJSON(pairs)
	}
	if anonOnly && len(adjs) == 0 && rng.Intn(2) == 0 {
		return setupJ // matrix: [a, b]
	}
	out := [][2]any{{"setup", setupJ}}
	if len(adjs) > 0 {
		al := []any{}
		for _, a := range adjs {
			am := asMap(a)
			if am["isnull"] == true {
				al = append(al, nil) // a null entry of the list: an adjustment without any dimension values
				continue
			}
			if am["nowith"] == true {
				ap := [][2]any{}
				if sv, present := skipValue(am["skip"].(string), rng); present {
					ap = append(ap, [2]any{"skip", sv})
				}
				al = append(al, orderedJSON(append(ap, [2]any{"soft_fail", true}))) // written without `with` at all
				continue
			}
			with := asMap(am["with"])
			var withJ any
			if v, ok := with[""]; ok && len(with) == 1 && rng.Intn(2) == 0 {
				withJ = v // with: value
			} else {
				wp := [][2]any{}
				for _, k := range sortedKeys(with) {
					wp = append(wp, [2]any{k, with[k]})
				}
				withJ = orderedJSON(wp)
			}
			ap := [][2]any{{"with", withJ}}
			kind, _ := am["skip"].(string)
			if sv, present := skipValue(kind, rng); present {
				ap = append(ap, [2]any{"skip", sv})
			}
			if rng.Intn(3) == 0 {
				ap = append(ap, [2]any{"soft_fail", true})
			}
			al = append(al, orderedJSON(ap))
		}
		out = append(out, [2]any{"adjustments", al})
	}
	return orderedJSON(out)
}

func classifyMatrixErr(err error) string {
	if err == nil {
		return "ok"
	}
	s := err.Error()
	for _, c := range [][2]string{
		{"matrix is nil", "nil_matrix"}, {"permutation has wrong length", "perm_length"},
		{"permutation has unknown dimension", "perm_dimension"}, {"adjustment has wrong length", "adj_length"},
		{"adjustment has unknown dimension", "adj_dimension"}, {"skipped by adjustment", "skipped"},
		{"neither a valid matrix combination", "no_match"}, {"unknown matrix tokens", "unknown_token"},
	} {
		if strings.Contains(s, c[0]) {
			return c[1]
		}
	}
	return "other"
}

func c11Event(c obj, rng *rand.Rand) obj {
	m := asMap(c["m"])
	isNil, _ := m["nil"].(bool)
	perm := pipeline.MatrixPermutation{}
	for k, v := range asMap(c["p"]) {
		perm[k], _ = v.(string)
	}
	ev := obj{"c": c}
	p, msg := guarded(func() {
		dims := []string{}
		if !isNil {
			dims = sortedKeys(asMap(m["setup"]))
		}
		toks := ""
		for _, d := range dims {
			// tokens name only dimensions that the permutation also has: a permutation that must be
			// rejected by VALIDATION must not be rejected by the token substitution (C12) instead
			if _, inPerm := perm[d]; inPerm || isNil {
				toks += " " + matrixToken(d, rng)
			}
		}
		step := [][2]any{{"command", "run" + toks}, {"label", "L" + toks}, {"key", "k1"},
			{"env", obj{"E": "v" + toks}},
			{"plugins", []any{obj{"docker#v1": obj{"image": "img" + toks}}}},
			{"agents", obj{"queue": "q" + toks}}}
		if !isNil {
			step = append(step, [2]any{"matrix", matrixJSON(m, rng)})
		}
		src := string(asciiJSON(obj{"steps": []any{orderedJSON(step)}}))
		pl, err := pipeline.Parse(strings.NewReader(src))
		if err != nil && !warning.Is(err) {
			panic("driver: document does not parse: " + err.Error() + "\n" + src)
		}
		cs, ok := pl.Steps[0].(*pipeline.CommandStep)
		if !ok {
			panic(fmt.Sprintf("driver: not a command step: %T\n%s", pl.Steps[0], src))
		}
		before, err := json.Marshal(cs)
		if err != nil {
			panic("driver: marshal before: " + err.Error())
		}
		ierr := cs.InterpolateMatrixPermutation(perm)
		after, err := json.Marshal(cs)
		if err != nil {
			panic("marshal after: " + err.Error())
		}
		ev["accepted"] = ierr == nil
		ev["class"] = classifyMatrixErr(ierr)
		ev["changed"] = string(before) != string(after)
		ev["doc"] = src
		if ierr != nil {
			ev["err"] = ierr.Error()
		}
	})
	ev["panic"] = p
	if p {
		if strings.HasPrefix(msg, "driver:") {
			fatal("%s", msg)
		}
		ev["panicmsg"] = msg
		ev["accepted"], ev["class"], ev["changed"] = false, "panic", false
	}
	return ev
}

func runC11(args []string) {
	fl := parseFlags(args)
	tw := newTraceWriter(fl.str("out", ""))
	defer tw.close()
	seed := int64(fl.int("seed", 1))
	samples := []any{}
	accepted := 0
	add := func(ev obj) {
		if a, _ := ev["accepted"].(bool); a {
			accepted++
		}
		if len(samples) < 3 && tw.n%1013 == 7 {
			samples = append(samples, obj{"case": ev["c"], "document": ev["doc"], "accepted": ev["accepted"], "class": ev["class"]})
		}
		delete(ev, "doc")
		tw.emit(ev)
	}
	if cf := fl.str("cases", ""); cf != "" {
		readNDJSON(cf, func(n int, c obj) {
			idx := int64(n)
			if r, ok := c["rot"].(json.Number); ok {
				idx, _ = r.Int64()
			}
			add(c11Event(c, newRand(idx, "c11")))
		})
	} else {
		rng := newRand(seed, "c11gen")
		n := fl.int("n", 1000)
		for i := 0; i < n; i++ {
			c := c11RandomCase(rng)
			c["rot"] = i
			add(c11Event(normalize(c), newRand(int64(i), "c11")))
		}
	}
	writeSummary(fl.str("summary", ""), obj{"events": tw.n, "accepted": accepted, "samples": samples})
}

// c11RandomCase: beyond TLC's scope - up to 6 dimensions, 10 values, 20
// adjustments with repeated tuples and conflicting skips.
func c11RandomCase(rng *rand.Rand) obj {
	ndims := 1 + rng.Intn(6)
	dims := []string{}
	if rng.Intn(4) == 0 {
		dims = []string{""}
	} else {
		names := []string{"os", "arch", "go", "a.b", "a-b", "_", "x1"}
		rng.Shuffle(len(names), func(i, j int) { names[i], names[j] = names[j], names[i] })
		dims = names[:ndims]
	}
	vals := []string{"v0", "v1", "v2", "v3", "v4", "v5", "v6", "v7", "v8", "new"}
	setup := obj{}
	for _, d := range dims {
		k := rng.Intn(4)
		l := []any{}
		for i := 0; i < k; i++ {
			l = append(l, vals[rng.Intn(6)])
		}
		if rng.Intn(7) == 0 {
			// a LONG dimension (17-48 values, written in no particular order): nothing about validation depends on a list's
			// length, and a rejected tuple leaves the list as written
			n := 17 + rng.Intn(32)
			for i := n; i > 0; i-- {
				l = append(l, fmt.Sprintf("w%02d", (i*7)%n))
			}
		}
		setup[d] = l
	}
	pick := func(d string) string {
		l := setup[d].([]any)
		if len(l) > 0 && rng.Intn(4) != 0 {
			return l[rng.Intn(len(l))].(string)
		}
		return vals[rng.Intn(len(vals))]
	}
	tuple := func() obj {
		t := obj{}
		for _, d := range dims {
			t[d] = pick(d)
		}
		return t
	}
	p := tuple()
	nadj := rng.Intn(21)
	if rng.Intn(3) == 0 {
		nadj = rng.Intn(3)
	}
	adjs := []any{}
	skips := []string{"absent", "null", "false", "true", "string"}
	for i := 0; i < nadj; i++ {
		w := tuple()
		switch rng.Intn(12) {
		case 0, 1, 2: // repeat the permutation's tuple
			w = obj{}
			for k, v := range p {
				w[k] = v
			}
		case 3: // malformed: drop a dimension
			if len(dims) > 0 {
				delete(w, dims[rng.Intn(len(dims))])
			}
		case 4: // malformed: unknown dimension (same arity)
			if len(dims) > 0 {
				delete(w, dims[rng.Intn(len(dims))])
				w["zz"] = "v0"
			}
		}
		sk := skips[rng.Intn(len(skips))]
		if rng.Intn(2) == 0 {
			sk = "absent"
		}
		adjs = append(adjs, obj{"with": w, "skip": sk})
	}
	if len(dims) > 0 && rng.Intn(12) == 0 {
		// an adjustment that names NO dimension: a null list entry, or an entry without `with` - malformed for any matrix
		// that has dimensions, so every permutation is rejected
		a := obj{"with": obj{}, "skip": skips[rng.Intn(len(skips))]}
		if rng.Intn(2) == 0 {
			a["isnull"] = true
			a["skip"] = "absent"
		} else {
			a["nowith"] = true
		}
		adjs = append(adjs, a)
	}
	switch rng.Intn(10) {
	case 0: // wrong arity
		if len(dims) > 0 {
			delete(p, dims[rng.Intn(len(dims))])
		}
	case 1:
		p["zz"] = "v0"
	case 2:
		if len(dims) > 0 {
			delete(p, dims[rng.Intn(len(dims))])
			p["zz"] = "v0"
		}
	case 3:
		p = obj{}
	}
	if len(dims) >= 2 && rng.Intn(5) == 0 {
		// boundary-shifted tuples: the permutation and an adjustment agree once their values are strung together
		// (with a separator that also occurs INSIDE the values), but differ dimension by dimension
		ds := append([]string{}, dims...)
		sort.Strings(ds)
		sep := []string{",", "|", " ", "/", ":", ";", "\x00", "="}[rng.Intn(8)]
		w, q := obj{}, obj{}
		for _, d := range ds {
			w[d], q[d] = "m", "m"
		}
		w[ds[0]], w[ds[1]] = "a"+sep+"b", "c"
		q[ds[0]], q[ds[1]] = "a", "b"+sep+"c"
		sk := []string{"absent", "true", "string"}[rng.Intn(3)]
		adjs = append(adjs, obj{"with": w, "skip": sk})
		p = q
	}
	m := obj{"nil": false, "setup": setup, "adjs": adjs}
	if rng.Intn(25) == 0 {
		m = obj{"nil": true, "setup": obj{}, "adjs": []any{}}
	}
	return obj{"m": m, "p": p}
}
