package main

import (
	"fmt"
	"reflect"
	"sort"
	"strings"

	pipeline "github.com/buildkite/go-pipeline"
)

// objAV projects a Go value of the library's object model (a *Pipeline, its
// steps, plugins, matrix ...) to AV by reading its FIELDS reflectively - not by
// marshalling it, which is code under test and may hide a difference. Used by
// C09: the pipeline re-parsed from its own output must equal the first one,
// field by field.
//
//	struct        -> mapping of its fields in declaration order (unexported ones too)
//	ordered.Map   -> mapping of its live items in order (nil = empty)
//	Go map        -> mapping sorted by key (nil = empty)
//	slice / array -> sequence (nil = empty)
//	nil pointer / nil interface -> null
//
// A plugin's Source is projected through FullSource(): the short and the full
// spelling of a source are the same plugin (C12), and the library keeps the
// spelling it was given.
func objAV(x any) any { return objAVValue(reflect.ValueOf(x), 0) }

func objAVValue(v reflect.Value, depth int) any {
	if depth > 300 {
		panic("driver: objAV recursion")
	}
	if !v.IsValid() {
		return obj{"t": "z"}
	}
	t := v.Type()
	if t.Kind() == reflect.Struct && t.PkgPath() == "github.com/buildkite/go-pipeline/ordered" && strings.HasPrefix(t.Name(), "Map[") {
		return objAVOrdered(v, depth)
	}
	if t.Kind() == reflect.Pointer && t.Elem().Kind() == reflect.Struct && t.Elem().PkgPath() == "github.com/buildkite/go-pipeline/ordered" &&
		strings.HasPrefix(t.Elem().Name(), "Map[") {
		if v.IsNil() {
			return obj{"t": "m", "kv": []any{}}
		}
		return objAVOrdered(v.Elem(), depth)
	}
	switch t.Kind() {
	case reflect.Pointer, reflect.Interface:
		if v.IsNil() {
			return obj{"t": "z"}
		}
		if t == reflect.TypeOf((*pipeline.Plugin)(nil)) && v.CanInterface() {
			p := v.Interface().(*pipeline.Plugin)
			return obj{"t": "m", "kv": []any{[]any{"Source", avStr(p.FullSource())}, []any{"Config", objAVValue(reflect.ValueOf(p.Config), depth+1)}}}
		}
		return objAVValue(v.Elem(), depth+1)
	case reflect.Struct:
		kv := []any{}
		for i := 0; i < t.NumField(); i++ {
			kv = append(kv, []any{t.Field(i).Name, objAVValue(v.Field(i), depth+1)})
		}
		return obj{"t": "m", "kv": kv, "type": t.Name()}
	case reflect.Map:
		type ent struct {
			k string
			v any
		}
		es := []ent{}
		it := v.MapRange()
		for it.Next() {
			es = append(es, ent{fmt.Sprint(it.Key()), objAVValue(it.Value(), depth+1)})
		}
		sort.Slice(es, func(a, b int) bool { return es[a].k < es[b].k })
		kv := []any{}
		for _, e := range es {
			kv = append(kv, []any{e.k, e.v})
		}
		return obj{"t": "m", "kv": kv}
	case reflect.Slice, reflect.Array:
		e := []any{}
		for i := 0; i < v.Len(); i++ {
			e = append(e, objAVValue(v.Index(i), depth+1))
		}
		return obj{"t": "q", "e": e}
	case reflect.String:
		return avStr(v.String())
	case reflect.Bool:
		return obj{"t": "b", "v": v.Bool()}
	case reflect.Int, reflect.Int8, reflect.Int16, reflect.Int32, reflect.Int64:
		return obj{"t": "n", "v": fmt.Sprint(v.Int())}
	case reflect.Uint, reflect.Uint8, reflect.Uint16, reflect.Uint32, reflect.Uint64:
		return obj{"t": "n", "v": fmt.Sprint(v.Uint())}
	case reflect.Float32, reflect.Float64:
		return obj{"t": "n", "v": canonNum(v.Float())}
	}
	return avStr(fmt.Sprintf("<%s>", t))
}

// objAVOrdered reads an ordered.Map[K,V] value through its unexported fields:
// items []Tuple{Key, Value, deleted}.
func objAVOrdered(m reflect.Value, depth int) any {
	items := m.FieldByName("items")
	if !items.IsValid() {
		panic("driver: ordered.Map has no field `items` any more; update objAVOrdered")
	}
	kv := []any{}
	for i := 0; i < items.Len(); i++ {
		it := items.Index(i)
		if d := it.FieldByName("deleted"); d.IsValid() && d.Bool() {
			continue
		}
		kv = append(kv, []any{fmt.Sprint(it.FieldByName("Key")), objAVValue(it.FieldByName("Value"), depth+1)})
	}
	return obj{"t": "m", "kv": kv}
}
