package main

import (
	"bytes"
	"encoding/json"
	"fmt"
	"math/rand"
	"reflect"
	"strings"

	pipeline "github.com/buildkite/go-pipeline"
	"github.com/buildkite/go-pipeline/ordered"
	"github.com/buildkite/go-pipeline/warning"
	"gopkg.in/yaml.v3"
)

// Whole-document checks C03 (normal form, no data loss), C08 (order), C09
// (fixpoint, determinism). One event per (document, rendering):
//
//	doc    the document the rendering denotes (AV)
//	jav    AV of json.Marshal(Parse(rendering))
//	yav    AV of yaml.Marshal(Parse(rendering)) (projected with plain yaml.v3)
//	j2     AV of json.Marshal(Parse(json output))
//	j3     AV of json.Marshal(Parse(yaml output))
//	kinds  step kinds (recursively) of the three parses
//	same   R repeated json.Marshal calls byte-identical
//	solo   stand-alone decoders: each emitted command step through
//	       CommandStep.UnmarshalJSON, each emitted plugin list through
//	       Plugins.UnmarshalJSON, re-marshalled (AV pairs)

var docValStrings = []string{"hello", "yes", "no", "true", "null", "~", "0x1f", "1e3", "12", "2002-08-15", "a: b", "- x", "#c", "'q'", "\"dq\"",
	"tab\there", "multi\nline", "trailing ", " leading", "é↑", "{{matrix}}", "$HOME", "a,b", "[x]", "{y}", "&a", "*b", "!tag", "%d", "@at",
	"`bt`", "|", ">", "?", ":", "-", "=", "<", "cr\rlf", "tRUE", "fALSE", "nULL", "yES", "crcrlf\r\r\nend", "crlf\r\nend", "lfcr\n\rend", "tail\r", "x y", "\U0001F600", "0", "-1", "1.0", "on", "OFF", "Null", "3:25:45",
	// control characters that JSON and Go spell differently (an ANSI colour sequence, BEL, VT)
	"\x1b[31mred\x1b[0m", "bell\a", "v\vt"}
var docKeyStrings = []string{"k", "a b", "", "12", "0xc", "+12", "True", "true", "null", "~", "x: y", "#h", "'s'", "é", "0x1f", "1e3", "- d", "[", "*s", "&r", "!t", "|", ">",
	"%p", "@a", "yes", "multi\nkey", "agents", "retry", "if", "depends_on", "soft_fail", "timeout_in_minutes", "0", "-", "?", "k2", "k3", "zz",
	// the canonical key strings of floats (YAML renderings may write them as plain floats, in any spelling): two that agree
	// in their first eight digits are still two keys
	"\x1besc", "b\ael", "8", "7", "010", "007", "1.5e+00", "1.00000001e+00", "1.00000002e+00", "-2.5e-07", "1e+300", "1.2345678901234567e+00"}
var docSources = []string{"docker#v1", "my-org/thing#main", "ecr", "github.com/buildkite-plugins/docker-buildkite-plugin#v2", "./local", "https://example.com/p.git#v1",
	// percent-escapes in a ref: the short form is expanded (its ref decoded once), the qualified form is left exactly as written -
	// and whatever was emitted is a fixed point when it is read again
	"my-org/deploy#v1.4.0%252Bbuild7", "github.com/my-org/deploy-buildkite-plugin#rel%252F1"}

type docStrings struct {
	rng  *rand.Rand
	used map[*int]map[string]bool
	ctr  int
}

// newDocGen builds the grammar generator with the hostile string pools. Keys are
// made unique per document by suffixing a counter when a pool key repeats.
func newDocGen(rng *rand.Rand) *docGen {
	seen := map[string]int{}
	g := &docGen{rng: rng, maxDepth: 3, typed: true, scalarEnv: true, scalarCfg: true}
	g.str = func(class string) string {
		switch class {
		case "key", "envname":
			// no duplicate keys inside one mapping (document-wide uniqueness is simplest)
			k := docKeyStrings[rng.Intn(len(docKeyStrings))]
			for n := 2; seen["key:"+k] > 0; n++ {
				k = fmt.Sprintf("%s_%d", docKeyStrings[rng.Intn(len(docKeyStrings))], n)
			}
			seen["key:"+k]++
			return k
		case "dim":
			d := []string{"os", "arch", "a.b", "_", "go-version"}[rng.Intn(5)]
			seen["dim:"+d]++
			if seen["dim:"+d] > 1 {
				d = fmt.Sprintf("%s%d", d, seen["dim:"+d])
			}
			return d
		case "pluginsrc":
			s := docSources[rng.Intn(len(docSources))]
			seen["src:"+s]++
			if seen["src:"+s] > 1 {
				return fmt.Sprintf("./p%d", seen["src:"+s]*100+rng.Intn(100))
			}
			return s
		case "stepkey", "label", "skip", "cachesize", "cachepath", "cachename", "sig":
			// never empty: an empty key/label is dropped by omitempty (and see finding F09)
			for {
				s := docValStrings[rng.Intn(len(docValStrings))]
				if s != "" {
					return s
				}
			}
		case "command":
			// commands are joined with newlines: a multi-line string that begins with
			// whitespace is outside the property on the YAML leg (yaml.v3's emitter)
			if rng.Intn(8) == 0 {
				// a list item that itself ends in a line break (a `- |` block scalar item): the join keeps it AND adds its own
				return []string{"echo a\n", "two\nlines\n", "x\n\n", "cr\r\n"}[rng.Intn(4)]
			}
			for {
				s := docValStrings[rng.Intn(len(docValStrings))]
				if s != "" && s[0] != ' ' && s[0] != '\t' {
					return s
				}
			}
		}
		return docValStrings[rng.Intn(len(docValStrings))]
	}
	return g
}

func kindsOf(steps pipeline.Steps) any {
	out := []any{}
	for _, s := range steps {
		if g, ok := s.(*pipeline.GroupStep); ok {
			out = append(out, []any{"group", kindsOf(g.Steps)})
		} else {
			out = append(out, stepKind(s))
		}
	}
	return out
}

func mustAVJSON(b []byte, what string) any {
	a, err := avFromJSON(b)
	if err != nil {
		panic("driver: " + what + " is not JSON: " + err.Error())
	}
	return a
}

// docPoison: process history. A marshal that legitimately FAILS (a non-finite float, finding F06) and one that
// succeeds on an unrelated pipeline, run just before an ordinary document: whatever those calls left behind in the
// library must not show in the next one.
func docPoison() {
	for rep := 0; rep < 12; rep++ {
		docPoisonOnce()
	}
}

// docPoisonRejected: more history. Documents that the decoder REJECTS half-way through a mapping (a null key, a
// sequence as a key) whose good keys are the very key names of the document decoded next.
func docPoisonRejected(src string) {
	var n yaml.Node
	if err := yaml.Unmarshal([]byte(src), &n); err != nil {
		return
	}
	keys, seen := []string{}, map[string]bool{}
	var walk func(x *yaml.Node, depth int)
	walk = func(x *yaml.Node, depth int) {
		if x == nil || depth > 40 {
			return
		}
		if x.Kind == yaml.MappingNode {
			for i := 0; i+1 < len(x.Content); i += 2 {
				if k := x.Content[i]; k.Kind == yaml.ScalarNode && k.Tag != "!!merge" && !seen[k.Value] {
					seen[k.Value] = true
					keys = append(keys, k.Value)
				}
			}
		}
		if x.Kind != yaml.AliasNode {
			for _, c := range x.Content {
				walk(c, depth+1)
			}
		}
	}
	walk(&n, 0)
	var sb strings.Builder
	sb.WriteString("{")
	for _, k := range keys {
		sb.Write(asciiJSON(k))
		sb.WriteString(": 1, ")
	}
	body := sb.String()
	for _, poison := range []string{"steps: []\nzz: {a: " + body + "[q]: oops}}\n", body + "~: oops}\n"} {
		func() {
			defer func() { recover() }()
			pipeline.Parse(strings.NewReader(poison))
			m := ordered.NewMap[string, any](0)
			yaml.Unmarshal([]byte(poison), m)
		}()
	}
}

func docPoisonOnce() {
	for _, poison := range []string{"steps:\n  - wait: ~\n    x: .inf\n", "steps:\n  - trigger: t\n    build: {n: .nan}\nnotify: [{email: poison@example.com}]\nenv: {POISON: p}\n",
		"steps:\n  - mystery: 1\n    agents: {weight: -.inf, queue: poison}\n"} {
		func() {
			defer func() { recover() }()
			if pp, err := pipeline.Parse(strings.NewReader(poison)); err == nil || warning.Is(err) {
				json.Marshal(pp)
				yaml.Marshal(pp)
			}
		}()
	}
}

// docEvent runs the whole round trip on one rendering.
func docEvent(src string, denotes any, style string, R int) obj {
	ev := obj{"doc": avFromDoc(denotes), "style": style, "src": src}
	fail := func(stage string, err error) {
		ev["failed"] = stage
		ev["errmsg"] = err.Error()
	}
	blank := obj{"t": "z"}
	for _, k := range []string{"jav", "yav", "j2", "j3", "o1", "o1after", "o2", "o3"} {
		ev[k] = blank
	}
	ev["same"], ev["solo"], ev["kinds"], ev["failed"], ev["warned"] = true, []any{}, []any{}, "", false
	p, msg := guarded(func() {
		pl, err := pipeline.Parse(strings.NewReader(src))
		if err != nil && !warning.Is(err) {
			fail("parse", err)
			return
		}
		ev["warned"] = err != nil
		ev["o1"] = objAV(pl) // the object itself, field by field, before anything is marshalled
		j1, err := json.Marshal(pl)
		if err != nil {
			fail("json.Marshal", err)
			return
		}
		ev["jav"] = mustAVJSON(j1, "json output")
		for r := 1; r < R; r++ {
			jr, err := json.Marshal(pl)
			if err != nil || !bytes.Equal(jr, j1) {
				ev["same"] = false
			}
		}
		y1, err := yaml.Marshal(pl)
		if err != nil {
			fail("yaml.Marshal", err)
			return
		}
		yav, err := avFromYAML(y1)
		if err != nil {
			fail("yaml output unreadable", err)
			return
		}
		ev["yav"] = yav
		p2, err := pipeline.Parse(bytes.NewReader(j1))
		if err != nil && !warning.Is(err) {
			fail("reparse json", err)
			return
		}
		j2, err := json.Marshal(p2)
		if err != nil {
			fail("json.Marshal of reparsed json", err)
			return
		}
		ev["j2"] = mustAVJSON(j2, "second json output")
		p3, err := pipeline.Parse(bytes.NewReader(y1))
		if err != nil && !warning.Is(err) {
			fail("reparse yaml", err)
			ev["yamltext"] = string(y1)
			return
		}
		j3, err := json.Marshal(p3)
		if err != nil {
			fail("json.Marshal of reparsed yaml", err)
			return
		}
		ev["j3"] = mustAVJSON(j3, "third json output")
		ev["kinds"] = []any{kindsOf(pl.Steps), kindsOf(p2.Steps), kindsOf(p3.Steps)}
		ev["o1after"], ev["o2"], ev["o3"] = objAV(pl), objAV(p2), objAV(p3)
		// stand-alone decoders on what was emitted
		solo := []any{}
		for _, s := range pl.Steps {
			cs, ok := s.(*pipeline.CommandStep)
			if !ok {
				continue
			}
			sb, err := json.Marshal(cs)
			if err != nil {
				fail("json.Marshal of a step", err)
				return
			}
			var ab []byte
			for rep := 0; rep < 8; rep++ { // (several times: the decoder must not depend on map iteration order)
				var again pipeline.CommandStep
				if err := again.UnmarshalJSON(sb); err != nil {
					fail("CommandStep.UnmarshalJSON", err)
					return
				}
				b, err := json.Marshal(&again)
				if err != nil {
					fail("json.Marshal of a re-decoded step", err)
					return
				}
				if rep > 0 && !bytes.Equal(b, ab) {
					ev["same"] = false
				}
				if rep == 0 || !bytes.Equal(b, sb) {
					ab = b // keep a decoding that differs from what was emitted, if any
				}
			}
			solo = append(solo, []any{mustAVJSON(sb, "step"), mustAVJSON(ab, "step again"), "step"})
			if len(cs.Plugins) > 0 {
				pb, _ := json.Marshal(cs.Plugins)
				var pls pipeline.Plugins
				if err := pls.UnmarshalJSON(pb); err != nil {
					fail("Plugins.UnmarshalJSON", err)
					return
				}
				pb2, _ := json.Marshal(pls)
				solo = append(solo, []any{mustAVJSON(pb, "plugins"), mustAVJSON(pb2, "plugins again"), "plugins"})
			}
		}
		ev["solo"] = solo
	})
	ev["panic"] = p
	if p {
		if strings.HasPrefix(msg, "driver:") {
			fatal("%s", msg)
		}
		ev["panicmsg"] = msg
	}
	return ev
}

// renderings of one document: JSON and YAML in several styles.
func docRenderings(doc any, rng *rand.Rand, nYAML int) [][3]any {
	out := [][3]any{{string(utf8JSON(doc)), doc, "json"}}
	for i := 0; i < nYAML; i++ {
		st := &yamlStyle{rng: rng, flow: rng.Intn(3), quote: rng.Intn(3), factor: rng.Intn(2) == 0, plainKeys: rng.Intn(2) == 0}
		text, denotes := renderYAML(doc, st)
		// self-check of the renderer: plain yaml.v3 must read the text back as the document it denotes
		back, err := avFromYAML([]byte(text))
		if err != nil {
			fatal("harness: yaml.v3 cannot read the rendered document: %v\n%s", err, text)
		}
		if !bytes.Equal(asciiJSON(back), asciiJSON(avFromDoc(denotes))) {
			fatal("harness: rendered YAML does not denote the generated document\n%s\nwant %s\ngot  %s", text, asciiJSON(avFromDoc(denotes)), asciiJSON(back))
		}
		out = append(out, [3]any{text, denotes, fmt.Sprintf("yaml flow=%d quote=%d factor=%v", st.flow, st.quote, st.factor)})
	}
	return out
}

// genericFromDoc: generated document -> the generic tree with ordered maps, built through the public API
func genericFromDoc(d any) any {
	switch x := d.(type) {
	case orderedJSON:
		m := ordered.NewMap[string, any](0)
		for _, p := range x {
			m.Set(p[0].(string), genericFromDoc(p[1]))
		}
		return m
	case []any:
		out := make([]any, 0, len(x))
		for _, v := range x {
			out = append(out, genericFromDoc(v))
		}
		return out
	}
	return d
}

// historyFromDoc builds the same abstract map as genericFromDoc through a longer API
// history, so that the backing storage differs (tombstones the compaction never saw):
//
//	1: a junk first key, deleted afterwards (slot 0 is a tombstone)
//	2: the first key is first set to junk, its real pair entered under a temporary name and
//	   then Replace(tmp, first, v) - which tombstones slot 0
//	3: junk keys interleaved and deleted; every second key entered under a temporary name and renamed in place
func historyFromDoc(d any, hist int) any {
	switch x := d.(type) {
	case orderedJSON:
		m := ordered.NewMap[string, any](0)
		switch {
		case hist == 1 && len(x) >= 2:
			m.Set("\x00junk", "junk")
			for _, p := range x {
				m.Set(p[0].(string), historyFromDoc(p[1], hist))
			}
			m.Delete("\x00junk")
		case hist == 2 && len(x) >= 2:
			m.Set(x[0][0].(string), "junk")
			m.Set("\x00tmp", "tmp")
			for _, p := range x[1:] {
				m.Set(p[0].(string), historyFromDoc(p[1], hist))
			}
			m.Replace("\x00tmp", x[0][0].(string), historyFromDoc(x[0][1], hist))
		case hist == 3:
			for i, p := range x {
				if i%2 == 0 {
					m.Set(fmt.Sprintf("\x00junk%d", i), i)
					m.Set(fmt.Sprintf("\x00tmp%d", i), "tmp")
				} else {
					m.Set(p[0].(string), historyFromDoc(p[1], hist))
				}
			}
			for i, p := range x {
				if i%2 == 0 {
					m.Replace(fmt.Sprintf("\x00tmp%d", i), p[0].(string), historyFromDoc(p[1], hist))
					m.Delete(fmt.Sprintf("\x00junk%d", i))
				}
			}
		case hist == 4 && len(x) >= 2:
			// as many junk keys in front as there are real ones, the first pair under a temporary name, the first KEY
			// once more at the end; the junk is deleted (one short of the compaction threshold), then the temporary
			// name is Replaced onto the first key - whose old slot, at the end, is tombstoned by that very call
			n := len(x)
			for i := 0; i < n; i++ {
				m.Set(fmt.Sprintf("\x00junk%d", i), i)
			}
			m.Set("\x00tmp", "tmp")
			for _, p := range x[1:] {
				m.Set(p[0].(string), historyFromDoc(p[1], hist))
			}
			m.Set(x[0][0].(string), "stale")
			for i := 0; i < n; i++ {
				m.Delete(fmt.Sprintf("\x00junk%d", i))
			}
			m.Replace("\x00tmp", x[0][0].(string), historyFromDoc(x[0][1], hist))
		case hist == 5 && len(x) >= 2:
			// a rename ONTO an existing key (its former slot, at the end, is left behind) and only then enough
			// deletions to make the map compact its storage: what the compaction keeps is the live pairs
			n := 2*len(x) + 1
			for i := 0; i < n; i++ {
				m.Set(fmt.Sprintf("\x00junk%d", i), i)
			}
			m.Set("\x00tmp", "tmp")
			for _, p := range x[1:] {
				m.Set(p[0].(string), historyFromDoc(p[1], hist))
			}
			m.Set(x[0][0].(string), "stale")
			m.Replace("\x00tmp", x[0][0].(string), historyFromDoc(x[0][1], hist))
			for i := 0; i < n; i++ {
				m.Delete(fmt.Sprintf("\x00junk%d", i))
			}
		case hist == 6 && len(x) >= 2:
			// the same with the left-behind slot BEFORE the renamed one, the junk after everything
			m.Set(x[0][0].(string), "stale")
			m.Set("\x00tmp", "tmp")
			for _, p := range x[1:] {
				m.Set(p[0].(string), historyFromDoc(p[1], hist))
			}
			m.Replace("\x00tmp", x[0][0].(string), historyFromDoc(x[0][1], hist))
			n := 2*len(x) + 3
			for i := 0; i < n; i++ {
				m.Set(fmt.Sprintf("\x00junk%d", i), i)
			}
			for i := n - 1; i >= 0; i-- {
				m.Delete(fmt.Sprintf("\x00junk%d", i))
			}
		case hist == 7 && len(x) >= 2:
			// MapFromItems over a caller's slice that has spare capacity, twice: the two maps (and the slice) are
			// independent of each other - what one of them appends is not the other's storage
			items := make([]ordered.TupleSA, 0, len(x)+4)
			for _, p := range x[:len(x)-1] {
				items = append(items, ordered.TupleSA{Key: p[0].(string), Value: historyFromDoc(p[1], hist)})
			}
			m = ordered.MapFromItems(items...)
			twin := ordered.MapFromItems(items...)
			last := x[len(x)-1]
			m.Set(last[0].(string), historyFromDoc(last[1], hist))
			twin.Set("\x00twin", "t")
			twin.Set(x[0][0].(string), "twin's own")
			_ = append(items, ordered.TupleSA{Key: "\x00caller", Value: "c"})
		case hist == 8:
			// the map is ENCODED once while a nested mapping still holds an extra key; the key is then removed through the
			// nested map's own API: the next encoding shows what the maps hold now
			for _, p := range x {
				m.Set(p[0].(string), historyFromDoc(p[1], 0))
			}
			if nested := firstNestedMap(m); nested != nil {
				nested.Set("\x00early", "e")
				yaml.Marshal(m)
				json.Marshal(m)
				nested.Delete("\x00early")
			}
		default:
			for _, p := range x {
				m.Set(p[0].(string), historyFromDoc(p[1], hist))
			}
		}
		return m
	case []any:
		out := make([]any, 0, len(x))
		for _, v := range x {
			out = append(out, historyFromDoc(v, hist))
		}
		return out
	}
	return d
}

// firstNestedMap: some mapping nested inside m (directly or inside a sequence), nil if there is none.
func firstNestedMap(v any) *ordered.MapSA {
	var find func(x any, top bool) *ordered.MapSA
	find = func(x any, top bool) *ordered.MapSA {
		switch t := x.(type) {
		case *ordered.MapSA:
			if !top {
				return t
			}
			var out *ordered.MapSA
			t.Range(func(_ string, val any) error {
				if out == nil {
					out = find(val, false)
				}
				return nil
			})
			return out
		case []any:
			for _, e := range t {
				if r := find(e, false); r != nil {
					return r
				}
			}
		}
		return nil
	}
	return find(v, true)
}

// deepDoc: "nested to any depth" - n mappings inside each other, every second one inside a one-item sequence.
func deepDoc(i, n int) orderedJSON {
	var cur any = orderedJSON{{"leaf", i}, {"last", "x"}}
	for lv := 0; lv < n; lv++ {
		if lv%2 == 0 {
			cur = orderedJSON{{fmt.Sprintf("z%d", lv), lv}, {"d", []any{cur}}, {"a", nil}}
		} else {
			cur = orderedJSON{{"d", cur}}
		}
	}
	return cur.(orderedJSON)
}

// docDepth: nesting depth of a document.
func docDepth(d any) int {
	max := 0
	switch x := d.(type) {
	case orderedJSON:
		for _, p := range x {
			if n := docDepth(p[1]); n > max {
				max = n
			}
		}
		return max + 1
	case []any:
		for _, v := range x {
			if n := docDepth(v); n > max {
				max = n
			}
		}
		return max + 1
	}
	return 0
}

// progEvent: the programmatic clause of C08.
func progEvent(doc orderedJSON, hist int) obj {
	ev := obj{"kind": "prog", "hist": hist, "m": avFromDoc(doc), "jback": obj{"t": "z"}, "yback": obj{"t": "z"}, "equalj": false, "equaly": false, "failed": ""}
	p, msg := guarded(func() {
		m := historyFromDoc(doc, hist).(*ordered.MapSA)
		if ref := genericFromDoc(doc).(*ordered.MapSA); !reflect.DeepEqual(toAV(m), toAV(ref)) {
			// (the history must denote the document: Range is C05's subject, used here only as a harness self-check)
			ev["failed"], ev["errmsg"] = "history", "the API history did not build the document"
			return
		}
		var jb []byte
		var err error
		if (hist+len(doc))%2 == 1 {
			// the encoder called directly, its result HELD while another map is encoded the same way: the bytes a caller
			// was given are the caller's
			jb, err = m.MarshalJSON()
			if err == nil {
				other := ordered.MapFromItems(ordered.TupleSA{Key: "other-map", Value: strings.Repeat("x", len(jb)+16)}, ordered.TupleSA{Key: "n", Value: 1})
				if _, oerr := other.MarshalJSON(); oerr != nil {
					panic("driver: encoding the other map: " + oerr.Error())
				}
			}
		} else {
			jb, err = json.Marshal(m)
		}
		if err != nil {
			ev["failed"], ev["errmsg"] = "json.Marshal", err.Error()
			return
		}
		mj := ordered.NewMap[string, any](0)
		if err := mj.UnmarshalJSON(jb); err != nil {
			ev["failed"], ev["errmsg"] = "UnmarshalJSON", err.Error()
			return
		}
		deep := docDepth(doc) > 12 // (ordered.Equal takes time exponential in the nesting depth: not asked of deep documents)
		ev["jback"], ev["equalj"] = toAV(mj), deep || (ordered.Equal(m, mj) && ordered.Equal(mj, m))
		yb, err := yaml.Marshal(m)
		if err != nil {
			ev["failed"], ev["errmsg"] = "yaml.Marshal", err.Error()
			return
		}
		my := ordered.NewMap[string, any](0)
		if err := yaml.Unmarshal(yb, my); err != nil {
			ev["failed"], ev["errmsg"] = "UnmarshalYAML", err.Error()+"\n"+string(yb)
			return
		}
		ev["yback"], ev["equaly"] = toAV(my), deep || (ordered.Equal(m, my) && ordered.Equal(my, m))
	})
	ev["panic"] = p
	if p {
		ev["panicmsg"] = msg
	}
	ev["src"], ev["style"] = string(asciiJSON(doc)), "prog"
	if docDepth(doc) > 12 {
		// (the trace reader's JSON nesting limit: deep trees travel as digests of their projections - equal trees, equal digests)
		for _, k := range []string{"m", "jback", "yback"} {
			ev[k] = avStr("sha256:" + sha(string(asciiJSON(ev[k]))))
		}
		ev["src"] = fmt.Sprintf("(a document nested %d levels deep)", docDepth(doc))
	}
	return ev
}

func runCDoc(args []string) {
	fl := parseFlags(args)
	tw := newTraceWriter(fl.str("out", ""))
	defer tw.close()
	R := fl.int("repeats", 5)
	if fl.str("prog", "") != "" {
		rng := newRand(int64(fl.int("seed", 1)), "cdocprog")
		for i, n := 0, fl.int("prog", 100); i < n; i++ {
			g := newDocGen(rng)
			g.plainNums = true
			sz := 1 + rng.Intn(6)
			if i%5 == 4 {
				sz = 9 + rng.Intn(32)
			}
			d := g.freeMap(0, sz)
			var deep any
			if i%9 == 4 {
				n := 60 + rng.Intn(16)
				d, deep = deepDoc(i, n), []any{i, n}
			}
			for hist := 0; hist < 9; hist++ {
				ev := progEvent(d, hist)
				if deep != nil {
					ev["deep"] = deep
				}
				tw.emit(ev)
			}
		}
		writeSummary(fl.str("summary", ""), obj{"events": tw.n})
		return
	}
	samples := []any{}
	nodes := 0
	emit := func(ev obj) {
		if len(samples) < 3 && tw.n%97 == 5 {
			samples = append(samples, obj{"style": ev["style"], "source": ev["src"], "failed": ev["failed"]})
		}
		nodes += strings.Count(ev["src"].(string), ":")
		tw.emit(ev)
	}
	if fl.str("probes", "") != "" {
		// fixed inputs for defects recorded in known_findings.json: the check reports them as
		// KNOWN-FINDING by their probe id (and as a violation again if they ever change shape)
		// (programmatic clause of C08) a key holding DEL: JSON encodes it raw, the library's JSON decoder (yaml.v3) refuses it
		if fl.str("probes", "") == "C08" { // (the programmatic clause belongs to C08 only)
			pe := progEvent(orderedJSON{{"a\x7fb", 1}, {"z", "tail"}}, 0)
			pe["probe"] = "F21-del-key-json-round-trip"
			emit(pe)
			// the same decoder-behind-the-decoder, other legal string keys: NEL (a line break to YAML), and a key longer than
			// YAML's 1024-character limit for implicit keys
			pe = progEvent(orderedJSON{{"a\u0085b", 1}, {"z", "tail"}}, 0)
			pe["probe"] = "F21b-nel-key-json-round-trip"
			emit(pe)
			pe = progEvent(orderedJSON{{strings.Repeat("k", 1100), 1}, {"z", "tail"}}, 0)
			pe["probe"] = "F21c-long-key-json-round-trip"
			emit(pe)
		}
		for _, pr := range docProbes {
			a, err := avFromJSON([]byte(pr[1]))
			if err != nil {
				fatal("probe %s: %v", pr[0], err)
			}
			ev := docEvent(pr[1], docFromAV(a), "json", R)
			ev["probe"] = pr[0]
			emit(ev)
		}
		writeSummary(fl.str("summary", ""), obj{"events": tw.n})
		return
	}
	if cf := fl.str("cases", ""); cf != "" {
		// replay: the exact source text and the document it denotes
		readNDJSON(cf, func(_ int, c obj) {
			if c["style"] == "prog" {
				hist := 0
				if h, ok := c["hist"].(json.Number); ok {
					h64, _ := h.Int64()
					hist = int(h64)
				}
				if dp, ok := c["deep"].([]any); ok && len(dp) == 2 {
					di, _ := dp[0].(json.Number).Int64()
					dn, _ := dp[1].(json.Number).Int64()
					ev := progEvent(deepDoc(int(di), int(dn)), hist)
					ev["deep"] = dp
					emit(ev)
					return
				}
				emit(progEvent(docFromAV(c["doc"]).(orderedJSON), hist))
				return
			}
			if c["poison"] == true {
				docPoison()
				docPoisonRejected(c["src"].(string))
			}
			ev := docEvent(c["src"].(string), nil, c["style"].(string), R)
			ev["doc"] = c["doc"]
			ev["poison"] = c["poison"] == true
			if pid, ok := c["probe"].(string); ok && pid != "" {
				ev["probe"] = pid
			}
			emit(ev)
		})
	} else {
		rng := newRand(int64(fl.int("seed", 1)), "cdoc")
		for i, n := 0, fl.int("n", 100); i < n; i++ {
			g := newDocGen(rng)
			g.bigMaps = i%6 == 5
			doc := g.pipeline()
			for _, r := range docRenderings(doc, rng, fl.int("yaml", 2)) {
				if i%4 == 1 {
					docPoison()
					docPoisonRejected(r[0].(string))
				}
				ev := docEvent(r[0].(string), r[1], r[2].(string), R)
				ev["poison"] = i%4 == 1
				emit(ev)
			}
		}
	}
	writeSummary(fl.str("summary", ""), obj{"events": tw.n, "mapping_entries": nodes, "samples": samples})
}


// docProbes: inputs that exhibit recorded, unrepaired defects (see /verif/known_findings.json).
var docProbes = [][2]string{
	{"F08-merge-key-in-unknown-field", `{"steps":[{"trigger":"t","x":{"<<":"v","a":1}}]}`},
	{"F08-merge-key-in-env-block", `{"env":{"<<":"v"},"steps":[{"command":"c"}]}`},
	{"F09-null-label-with-name", `{"steps":[{"command":"c","label":null,"name":"n"}]}`},
	{"F09-empty-key-with-id", `{"steps":[{"command":"c","key":"","id":"i"}]}`},
	{"F09-empty-id-with-identifier", `{"steps":[{"command":"c","id":"","identifier":"x"}]}`},
	{"F20-extra-key-inside-signature", `{"steps":[{"command":"c","signature":{"algorithm":"a","signed_fields":["command"],"value":"v","note":{"k":1}}}]}`},
	{"F19-empty-skip-string", `{"steps":[{"command":"c","matrix":{"setup":{"os":["a"]},"adjustments":[{"with":{"os":"b"},"skip":""}]}}]}`},
	{"F16-null-matrix-dimension", `{"steps":[{"command":"c","matrix":{"setup":{"os":null,"arch":["a"]}}}]}`},
}
