package main

import (
	"runtime"
	"fmt"
	"os"
)

var commands = map[string]func([]string){
	"c01": runC01,
	"c02": runC02,
	"cdoc": runCDoc,
	"cextras": runCExtras,
	"c04": runC04,
	"c05": runC05,
	"c06": runC06,
	"c07": runC07,
	"c10": runC10,
	"c11": runC11,
	"c12": runC12,
	"c13": runC13,
	"c14": runC14,
	"c15": runC15,
	"c16": runC16,
	"c17": runC17,
	"c18": runC18,
	"c19": runC19,
}

func main() {
	if len(os.Args) < 2 {
		fmt.Fprintln(os.Stderr, "usage: driver <command> [flags]")
		os.Exit(2)
	}
	cmd, ok := commands[os.Args[1]]
	if !ok {
		fmt.Fprintf(os.Stderr, "driver: unknown command %q\n", os.Args[1])
		os.Exit(2)
	}
	if os.Args[1] != "c19" {
		// one P for every sequential driver: per-P caches of the runtime (sync.Pool) then behave the same way on every
		// run of the same cases, so an event that depends on what an earlier call left in such a cache reproduces from
		// its replay object. (C19 is about concurrency and keeps all Ps.)
		runtime.GOMAXPROCS(1)
	}
	cmd(os.Args[2:])
}
