package main

import (
	"bytes"
	"context"
	"crypto"
	"crypto/ed25519"
	"crypto/ecdsa"
	"crypto/elliptic"
	"crypto/rand"
	"encoding/base64"
	"encoding/json"
	"fmt"
	"io"
	mrand "math/rand"
	"sort"
	"strings"

	pipeline "github.com/buildkite/go-pipeline"
	"github.com/buildkite/go-pipeline/ordered"
	"github.com/buildkite/go-pipeline/jwkutil"
	"github.com/buildkite/go-pipeline/signature"
	"github.com/lestrrat-go/jwx/v2/jwa"
	"github.com/lestrrat-go/jwx/v2/jwk"
)

// Shared by the signing checks (C01, C14, C06, C02): concrete objects for the
// abstract content of spec/Signing.tla, and real keys of all four kinds.

type es256Signer struct{ priv *ecdsa.PrivateKey }

func (s es256Signer) Public() crypto.PublicKey { return &s.priv.PublicKey }
func (s es256Signer) Sign(r io.Reader, digest []byte, _ crypto.SignerOpts) ([]byte, error) {
	return ecdsa.SignASN1(r, s.priv, digest)
}
func (s es256Signer) Algorithm() jwa.KeyAlgorithm { return jwa.ES256 }

// keyring: for every algorithm, key pairs K1 and K2; K3 is a pair of another algorithm.
type keyPair struct {
	alg    string
	sign   signature.Key // private jwk.Key or crypto.Signer
	verify any           // jwk.Set (public) or crypto.Signer
	pub    jwk.Key
}

var keyring = map[string]*keyPair{}

func getKey(alg, pair string) *keyPair {
	id := alg + "/" + pair
	if k, ok := keyring[id]; ok {
		return k
	}
	var kp *keyPair
	if alg == "ES256" {
		priv, err := ecdsa.GenerateKey(elliptic.P256(), rand.Reader)
		if err != nil {
			fatal("ecdsa: %v", err)
		}
		s := es256Signer{priv}
		kp = &keyPair{alg: alg, sign: s, verify: s}
	} else {
		privSet, pubSet, err := jwkutil.NewKeyPair("kid-"+id, jwa.SignatureAlgorithm(alg))
		if err != nil {
			fatal("NewKeyPair(%s): %v", alg, err)
		}
		pk, _ := privSet.Key(0)
		uk, _ := pubSet.Key(0)
		kp = &keyPair{alg: alg, sign: pk, verify: pubSet, pub: uk}
	}
	keyring[id] = kp
	return kp
}

func otherAlg(alg string) string {
	if alg == "EdDSA" {
		return "ES512"
	}
	return "EdDSA"
}

// keySetFor builds what Verify is given for a key operation of the catalogue.
func keySetFor(alg, keyop string) any {
	signer := getKey(alg, "K1")
	if alg == "ES256" {
		switch keyop {
		case "signer", "signer_plus":
			return signer.verify
		case "empty":
			return jwk.NewSet()
		case "other_alg":
			return getKey("EdDSA", "K3").verify
		default:
			return getKey(alg, "K2").verify
		}
	}
	set := jwk.NewSet()
	add := func(k *keyPair) {
		if err := set.AddKey(k.pub); err != nil {
			fatal("AddKey: %v", err)
		}
	}
	switch keyop {
	case "signer":
		add(signer)
	case "signer_plus":
		add(getKey(alg, "K2"))
		add(signer)
		add(getKey(otherAlg(alg), "K3"))
	case "other_same_alg":
		add(getKey(alg, "K2"))
	case "other_alg":
		add(getKey(otherAlg(alg), "K3"))
	case "without_signer":
		add(getKey(alg, "K2"))
		add(getKey(otherAlg(alg), "K3"))
	case "empty":
		// a key set with no keys at all
	default:
		fatal("bad keyop %s", keyop)
	}
	return set
}

var srcSpelling = map[string]string{
	"short": "docker#v1", "canon": "github.com/buildkite-plugins/docker-buildkite-plugin#v1", "suffixed": "docker-buildkite-plugin#v1",
	"other": "./local", "other2": "https://example.com/p.git#v2",
	// a ref that itself holds a slash: still one ref, whatever the spelling of the source in front of it
	"short_sref": "docker#release/v5", "org_sref": "buildkite-plugins/docker#release/v5", "canon_sref": "github.com/buildkite-plugins/docker-buildkite-plugin#release/v5",
	"short_sref2": "docker#release/v6",
}

func cfgValue(name string, rng *mrand.Rand) any {
	if strings.HasPrefix(name, "lit:") {
		return strings.TrimPrefix(name, "lit:") // a literal string config
	}
	switch name {
	case "null":
		return nil
	case "empty":
		return map[string]any{}
	case "emptylist":
		return []any{}
	case "kv":
		return map[string]any{"k": "v", "a": map[string]any{"y": 1, "x": []any{true, nil}}}
	case "kw":
		return map[string]any{"k": "w", "a": map[string]any{"y": 1, "x": []any{true, nil}}}
	case "deep_v":
		return map[string]any{"k": map[string]any{"n": []any{"v", 1}}}
	case "deep_w":
		return map[string]any{"k": map[string]any{"n": []any{"w", 1}}}
	case "big_int":
		return map[string]any{"channel": int64(1096853462215573544)}
	case "big_str":
		return map[string]any{"channel": "1096853462215573544"}
	case "nest_map":
		return map[string]any{"environment": map[string]any{}, "volumes": []any{"x", []any{}}}
	case "nest_list":
		return map[string]any{"environment": []any{}, "volumes": []any{"x", []any{}}}
	case "nest_null":
		return map[string]any{"environment": nil, "volumes": []any{"x", []any{}}}
	case "nest_el_map":
		return map[string]any{"environment": map[string]any{}, "volumes": []any{"x", map[string]any{}}}
	case "nest_el_null":
		return map[string]any{"environment": map[string]any{}, "volumes": []any{"x", nil}}
	case "num1":
		return map[string]any{"k": 1}
	case "str1":
		return map[string]any{"k": "1"}
	case "bfalse":
		return false
	case "zero":
		return 0
	case "emptystr":
		return ""
	}
	fatal("bad cfg %s", name)
	return nil
}

func matrixShape(name string) *pipeline.Matrix {
	adj := func(with string, skip any, extra map[string]any) *pipeline.Matrix {
		return &pipeline.Matrix{Setup: pipeline.MatrixSetup{"os": {"linux"}},
			Adjustments: pipeline.MatrixAdjustments{{With: pipeline.MatrixAdjustmentWith{"os": with}, Skip: skip, RemainingFields: extra}}}
	}
	switch name {
	case "nil":
		return nil
	case "empty":
		return &pipeline.Matrix{}
	case "empty_alloc":
		return &pipeline.Matrix{Setup: pipeline.MatrixSetup{}, Adjustments: pipeline.MatrixAdjustments{}, RemainingFields: map[string]any{}} // (what `{"setup": {}}` parses to, and more)
	case "list_ab":
		return &pipeline.Matrix{Setup: pipeline.MatrixSetup{"": {"a", "b"}}}
	case "list_ac":
		return &pipeline.Matrix{Setup: pipeline.MatrixSetup{"": {"a", "c"}}}
	case "setup_os":
		return &pipeline.Matrix{Setup: pipeline.MatrixSetup{"os": {"linux"}}}
	case "skiponly_t", "skiponly_f", "skiponly_s":
		// no dimensions at all; one adjustment with an empty `with` that only says skip (true / false / a reason): the empty
		// permutation is skipped or not - the matrix is content
		return &pipeline.Matrix{Adjustments: pipeline.MatrixAdjustments{{With: pipeline.MatrixAdjustmentWith{}, Skip: map[string]any{"skiponly_t": true, "skiponly_f": false, "skiponly_s": "flaky"}[name]}}}
	case "skiponly_t_es":
		return &pipeline.Matrix{Setup: pipeline.MatrixSetup{}, Adjustments: pipeline.MatrixAdjustments{{With: pipeline.MatrixAdjustmentWith{}, Skip: true}}} // (what `setup: {}` next to the adjustment parses to)
	case "setup_os_eadj":
		return &pipeline.Matrix{Setup: pipeline.MatrixSetup{"os": {"linux"}}, Adjustments: pipeline.MatrixAdjustments{}} // (what `adjustments: []` parses to)
	case "setup_os_erem":
		return &pipeline.Matrix{Setup: pipeline.MatrixSetup{"os": {"linux"}}, RemainingFields: map[string]any{}}
	case "adj_base_erem":
		return adj("z", nil, map[string]any{})
	case "setup_os2":
		return &pipeline.Matrix{Setup: pipeline.MatrixSetup{"os": {"mac"}}}
	case "shadow_a", "shadow_b":
		// same leftover fields - one of them NAMED `setup` - but different real setups
		return &pipeline.Matrix{Setup: pipeline.MatrixSetup{"": {"a", map[string]string{"shadow_a": "b", "shadow_b": "c"}[name]}},
			RemainingFields: map[string]any{"setup": []any{"x"}, "note": "n"}}
	case "adj_tomb_v", "adj_tomb_w":
		// an ordered map (as the parser leaves under an adjustment's extra keys) that has been edited through its API:
		// slot 0 is a tombstone; the two shapes differ in the LAST live pair only
		om := ordered.NewMap[string, any](0)
		om.Set("dropped", 0)
		om.Set("exit_status", 1)
		om.Set("signal", map[string]string{"adj_tomb_v": "v", "adj_tomb_w": "w"}[name])
		om.Delete("dropped")
		return adj("z", nil, map[string]any{"soft_fail": []any{om}})
	case "anon_plus_a", "anon_plus_b":
		// the anonymous dimension together with a named one; the shapes differ in the NAMED dimension only
		return &pipeline.Matrix{Setup: pipeline.MatrixSetup{"": {"a", "b"}, "os": {map[string]string{"anon_plus_a": "linux", "anon_plus_b": "mac"}[name]}}}
	case "anon_adj_a", "anon_adj_b":
		return &pipeline.Matrix{Setup: pipeline.MatrixSetup{"": {"a"}, "os": {"linux"}},
			Adjustments: pipeline.MatrixAdjustments{{With: pipeline.MatrixAdjustmentWith{"": "c", "os": map[string]string{"anon_adj_a": "mac", "anon_adj_b": "bsd"}[name]}}}}
	case "dims_empty":
		return &pipeline.Matrix{Setup: pipeline.MatrixSetup{"os": {}, "arch": {}}} // dimensions without values: still a matrix, and signed
	case "dims_empty2":
		return &pipeline.Matrix{Setup: pipeline.MatrixSetup{"os": {}, "cpu": {}}}
	case "dims_mixed_a", "dims_mixed_b":
		return &pipeline.Matrix{Setup: pipeline.MatrixSetup{"os": {}, "arch": {"amd64", map[string]string{"dims_mixed_a": "arm64", "dims_mixed_b": "riscv"}[name]}}}
	case "list_linux":
		return &pipeline.Matrix{Setup: pipeline.MatrixSetup{"": {"linux"}}}
	case "dim_arch":
		return &pipeline.Matrix{Setup: pipeline.MatrixSetup{"arch": {"linux"}}}
	case "adj_base":
		return adj("z", nil, nil)
	case "adj_with2":
		return adj("y", nil, nil)
	case "adj_skip":
		return adj("z", true, nil)
	case "adj_extra":
		return adj("z", nil, map[string]any{"soft_fail": true})
	}
	fatal("bad matrix shape %s", name)
	return nil
}

// shuffledMap builds a map inserting its keys in a random order.
func shuffledMap(m map[string]any, rng *mrand.Rand) map[string]string {
	ks := sortedKeys(m)
	rng.Shuffle(len(ks), func(i, j int) { ks[i], ks[j] = ks[j], ks[i] })
	out := make(map[string]string, len(ks))
	for _, k := range ks {
		out[k], _ = m[k].(string)
	}
	return out
}

// buildStep: abstract content -> the real signable object.
func buildStep(c map[string]any, rng *mrand.Rand) *signature.CommandStepWithInvariants {
	st := pipeline.CommandStep{}
	st.Command, _ = c["command"].(string)
	env := c["env"].(map[string]any)
	if isNil, _ := env["nil"].(bool); !isNil {
		st.Env = shuffledMap(asMap(env["m"]), rng)
	}
	pl := c["plugins"].(map[string]any)
	if isNil, _ := pl["nil"].(bool); !isNil {
		st.Plugins = pipeline.Plugins{}
		l, _ := pl["l"].([]any)
		for _, p := range l {
			pm := p.(map[string]any)
			src, ok := srcSpelling[pm["src"].(string)]
			if !ok {
				src = pm["src"].(string) // a literal source
			}
			st.Plugins = append(st.Plugins, &pipeline.Plugin{Source: src, Config: cfgValue(pm["cfg"].(string), rng)})
		}
	}
	st.Matrix = matrixShape(c["matrix"].(string))
	repo, _ := c["repo"].(string)
	return &signature.CommandStepWithInvariants{CommandStep: st, RepositoryURL: repo}
}

func envOf(x any, rng *mrand.Rand) map[string]string { return shuffledMap(asMap(x), rng) }

func applyFieldOp(op string, fs []string) []string {
	out := append([]string{}, fs...)
	switch {
	case op == "same":
	case op == "reverse":
		for i, j := 0, len(out)-1; i < j; i, j = i+1, j-1 {
			out[i], out[j] = out[j], out[i]
		}
	case op == "dup":
		out = append(out, out[0])
	case op == "empty":
		out = []string{}
	case strings.HasPrefix(op, "drop:"):
		f := strings.TrimPrefix(op, "drop:")
		out = out[:0]
		for _, x := range fs {
			if x != f {
				out = append(out, x)
			}
		}
	case strings.HasPrefix(op, "dropdup:"):
		out = append(applyFieldOp("drop:"+strings.TrimPrefix(op, "dropdup:"), fs), "command")
	case strings.HasPrefix(op, "add:"):
		out = append(out, strings.TrimPrefix(op, "add:"))
	default:
		fatal("bad fieldop %s", op)
	}
	return out
}

// flipSignatureBit flips one bit of the decoded signature segment of a detached compact JWS.
func flipSignatureBit(v string) string {
	parts := strings.Split(v, ".")
	if len(parts) != 3 {
		fatal("not a compact JWS: %q", v)
	}
	sig, err := base64.RawURLEncoding.DecodeString(parts[2])
	if err != nil || len(sig) == 0 {
		fatal("signature segment: %v", err)
	}
	sig[len(sig)/2] ^= 0x10
	parts[2] = base64.RawURLEncoding.EncodeToString(sig)
	return strings.Join(parts, ".")
}

// partialFielder signs like the step it wraps, minus one field.
type partialFielder struct {
	inner *signature.CommandStepWithInvariants
	drop  string
}

func (p *partialFielder) SignedFields() (map[string]any, error) {
	m, err := p.inner.SignedFields()
	if err != nil {
		return nil, err
	}
	out := map[string]any{}
	for k, v := range m {
		if k != p.drop {
			out[k] = v
		}
	}
	return out, nil
}

func (p *partialFielder) ValuesForFields(fields []string) (map[string]any, error) {
	return p.inner.ValuesForFields(fields)
}

func c01Event(c obj, seed int64) obj {
	rng := newRand(seed, "c01")
	ctx := context.Background()
	alg := c["key"].(map[string]any)["alg"].(string)
	signer := getKey(alg, "K1")
	ev := obj{"c": c, "signed": false, "accepted": false}
	p, msg := guarded(func() {
		orig := buildStep(c["orig"].(map[string]any), rng)
		penv := envOf(c["penv"], rng)
		if seed%2 == 1 {
			// as SignSteps does, the SAME env map has just served another step - one that shadows every pipeline
			// variable; what is signed for `orig` must not depend on that
			denv := map[string]string{}
			for k := range penv {
				denv[k] = "decoy"
			}
			decoy := &signature.CommandStepWithInvariants{CommandStep: pipeline.CommandStep{Command: "decoy", Env: denv}, RepositoryURL: "https://example.com/decoy.git"}
			if _, err := signature.Sign(ctx, signer.sign, decoy, signature.WithEnv(penv)); err != nil {
				panic("Sign of the decoy step: " + err.Error())
			}
		}
		plog := &payloadLogger{}
		sig, err := signature.Sign(ctx, signer.sign, orig, signature.WithEnv(penv), signature.WithLogger(plog), signature.WithDebugSigning(true))
		if err != nil {
			ev["errmsg"] = "sign: " + err.Error()
			return
		}
		ev["signed"] = true
		if !sort.StringsAreSorted(sig.SignedFields) {
			ev["errmsg"] = "signed field list is not sorted"
			ev["signed"] = false
			return
		}
		ev["fields"] = sig.SignedFields
		rec := &pipeline.Signature{Algorithm: sig.Algorithm, SignedFields: applyFieldOp(c["fieldop"].(string), sig.SignedFields), Value: sig.Value}
		if c["algop"] == "other" {
			rec.Algorithm = "HS512"
		}
		switch c["valueop"] {
		case "splice":
			o2 := buildStep(c["orig"].(map[string]any), rng)
			o2.Command = "another step"
			s2, err := signature.Sign(ctx, signer.sign, o2, signature.WithEnv(penv))
			if err != nil {
				panic("driver: signing the other step: " + err.Error())
			}
			rec.Value = s2.Value
		case "bitflip":
			rec.Value = flipSignatureBit(sig.Value)
		case "partial":
			// a GENUINE signature by the signer's key over everything but one mandatory field (made through a fielder that
			// leaves the field out). Verification refuses it for the missing field - also right after having refused
			// signatures that lacked OTHER mandatory fields (history is part of the case)
			dropped := strings.TrimPrefix(strings.TrimPrefix(c["fieldop"].(string), "dropdup:"), "drop:")
			for _, other := range []string{"repository_url", "plugins", "env", "matrix", "command"} {
				if other == dropped {
					continue
				}
				ps, err := signature.Sign(ctx, signer.sign, &partialFielder{inner: buildStep(c["orig"].(map[string]any), rng), drop: other}, signature.WithEnv(penv))
				if err != nil {
					panic("driver: partial signature: " + err.Error())
				}
				signature.Verify(ctx, ps, keySetFor(alg, "signer"), buildStep(c["orig"].(map[string]any), rng), signature.WithEnv(envOf(c["penv"], rng)))
			}
			ps, err := signature.Sign(ctx, signer.sign, &partialFielder{inner: buildStep(c["orig"].(map[string]any), rng), drop: dropped}, signature.WithEnv(penv))
			if err != nil {
				panic("driver: partial signature: " + err.Error())
			}
			rec = ps
			if strings.HasPrefix(c["fieldop"].(string), "dropdup:") {
				// the field list names another mandatory field twice: as many ENTRIES as there are mandatory fields
				rec.SignedFields = append(append([]string{}, rec.SignedFields...), "command")
			}
		case "attach":
			// header..signature -> header.<original payload>.signature : a valid ATTACHED JWS of the original step
			if len(plog.payloads) != 1 {
				panic(fmt.Sprintf("driver: expected one logged payload from Sign, got %d", len(plog.payloads)))
			}
			parts := strings.Split(sig.Value, ".")
			if len(parts) != 3 || parts[1] != "" {
				panic("driver: not a detached compact JWS: " + sig.Value)
			}
			parts[1] = base64.RawURLEncoding.EncodeToString([]byte(plog.payloads[0]))
			rec.Value = strings.Join(parts, ".")
		}
		pres := buildStep(c["pc"].(map[string]any), rng)
		venv := envOf(c["venv"], rng)
		verr := signature.Verify(ctx, rec, keySetFor(alg, c["keyop"].(string)), pres, signature.WithEnv(venv))
		ev["accepted"] = verr == nil
		if verr != nil {
			ev["errmsg"] = verr.Error()
		}
	})
	ev["panic"] = p
	if p {
		if strings.HasPrefix(msg, "driver:") {
			fatal("%s", msg)
		}
		ev["panicmsg"] = msg
	}
	return ev
}

func runC01(args []string) {
	fl := parseFlags(args)
	tw := newTraceWriter(fl.str("out", ""))
	defer tw.close()
	samples := []any{}
	acc := 0
	readNDJSON(fl.str("cases", ""), func(n int, c obj) {
		seed := int64(n) + int64(fl.int("seed", 1))*100003
		if r, ok := c["rot"].(json.Number); ok {
			seed, _ = r.Int64() // every choice of the driver is a function of the case: a replay reproduces it
		}
		ev := c01Event(c, seed)
		if ev["accepted"] == true {
			acc++
		}
		if len(samples) < 4 && n%3001 == 7 {
			samples = append(samples, obj{"kind": c["kind"], "key": c["key"], "orig": c["orig"], "presented": c["pc"], "fieldop": c["fieldop"],
				"keyop": c["keyop"], "signed_fields": ev["fields"], "accepted": ev["accepted"], "error": ev["errmsg"]})
		}
		delete(ev, "fields")
		tw.emit(ev)
	})
	writeSummary(fl.str("summary", ""), obj{"events": tw.n, "accepted": acc, "samples": samples})
}

var _ = fmt.Sprint

// ---------------------------------------------------------------------------
// C14: the canonical payload. The real bytes are taken from the debug-signing
// logger of Sign and of Verify.
// ---------------------------------------------------------------------------

type payloadLogger struct{ payloads []string }

func (l *payloadLogger) Debug(f string, v ...any) {
	if strings.HasPrefix(f, "Signed Step:") && len(v) >= 1 {
		if b, ok := v[0].([]byte); ok {
			l.payloads = append(l.payloads, string(b))
		}
	}
}

func sha(s string) string {
	h := crypto.SHA256.New()
	h.Write([]byte(s))
	return fmt.Sprintf("%x", h.Sum(nil))
}

// payloadHashes signs (and verifies) the abstract input R times with freshly
// built maps; returns the Sign payload hashes and the Verify payload hash.
func payloadHashes(s map[string]any, R int, rng *mrand.Rand) (signH []string, verifyH string, sample string) {
	ctx := context.Background()
	alg, _ := s["alg"].(string)
	kp := getKey(alg, "K1")
	for r := 0; r < R; r++ {
		st := buildStep(s["c"].(map[string]any), rng)
		penv := envOf(s["penv"], rng)
		if r%2 == 1 {
			// history independence: the SAME env map has just served another step (one that shadows every
			// pipeline variable) - as SignSteps reuses one option set for all steps. The payload of `st`
			// must not depend on that.
			denv := map[string]string{}
			for k := range penv {
				denv[k] = "decoy"
			}
			decoy := &signature.CommandStepWithInvariants{CommandStep: pipeline.CommandStep{Command: "decoy", Env: denv}, RepositoryURL: "https://example.com/decoy.git"}
			dsig, err := signature.Sign(ctx, kp.sign, decoy, signature.WithEnv(penv))
			if err != nil {
				panic("Sign of the decoy step: " + err.Error())
			}
			if err := signature.Verify(ctx, dsig, keySetFor(alg, "signer"), decoy, signature.WithEnv(penv)); err != nil {
				panic("Verify of the decoy step: " + err.Error())
			}
		}
		lg := &payloadLogger{}
		sig, err := signature.Sign(ctx, kp.sign, st, signature.WithEnv(penv), signature.WithLogger(lg), signature.WithDebugSigning(true))
		if err != nil {
			panic("Sign: " + err.Error())
		}
		if len(lg.payloads) != 1 {
			panic(fmt.Sprintf("driver: expected one logged payload from Sign, got %d", len(lg.payloads)))
		}
		signH = append(signH, sha(lg.payloads[0]))
		sample = lg.payloads[0]
		if r == 2 {
			// history on the OBJECT: the same step value is signed first under another pipeline env (and verified),
			// then under this one - the payload depends on the content and this env only
			other := map[string]string{"ZZ_OTHER": "o", "A": "other-a", "B": "other-b"}
			st3 := buildStep(s["c"].(map[string]any), rng)
			osig, err := signature.Sign(ctx, kp.sign, st3, signature.WithEnv(other), signature.WithLogger(&payloadLogger{}), signature.WithDebugSigning(true)) // (debug logging is an observer too)
			if err != nil {
				panic("Sign under another env: " + err.Error())
			}
			if err := signature.Verify(ctx, osig, keySetFor(alg, "signer"), st3, signature.WithEnv(other)); err != nil {
				panic("Verify under another env: " + err.Error())
			}
			lg3 := &payloadLogger{}
			if _, err := signature.Sign(ctx, kp.sign, st3, signature.WithEnv(envOf(s["penv"], rng)), signature.WithLogger(lg3), signature.WithDebugSigning(true)); err != nil {
				panic("second Sign of the same object: " + err.Error())
			}
			if len(lg3.payloads) != 1 {
				panic(fmt.Sprintf("driver: expected one logged payload, got %d", len(lg3.payloads)))
			}
			signH = append(signH, sha(lg3.payloads[0]))
		}
		if r == 1 {
			// history on the OBJECT, by edits: the same step value first holds MORE (an extra adjustment in its matrix, an
			// extra variable, an extra plugin) and is signed like that; the extras are then taken out again through the
			// fields themselves, and what is signed now is the content it holds now
			st4 := buildStep(s["c"].(map[string]any), rng)
			var adjs pipeline.MatrixAdjustments
			if st4.Matrix != nil {
				adjs = st4.Matrix.Adjustments
				st4.Matrix.Adjustments = append(append(pipeline.MatrixAdjustments{}, adjs...), &pipeline.MatrixAdjustment{With: pipeline.MatrixAdjustmentWith{"os": "edited", "": "edited"}, Skip: true})
			}
			plugs := st4.Plugins
			st4.Plugins = append(append(pipeline.Plugins{}, plugs...), &pipeline.Plugin{Source: "edited#v1", Config: map[string]any{"k": "edited"}})
			if st4.Env != nil {
				st4.Env["ZZ_EDITED"] = "e"
			}
			if _, err := signature.Sign(ctx, kp.sign, st4, signature.WithEnv(envOf(s["penv"], rng))); err != nil {
				panic("Sign of the step before the edit: " + err.Error())
			}
			if st4.Matrix != nil {
				st4.Matrix.Adjustments = adjs
			}
			st4.Plugins = plugs
			delete(st4.Env, "ZZ_EDITED")
			lg4 := &payloadLogger{}
			if _, err := signature.Sign(ctx, kp.sign, st4, signature.WithEnv(envOf(s["penv"], rng)), signature.WithLogger(lg4), signature.WithDebugSigning(true)); err != nil {
				panic("Sign of the edited step: " + err.Error())
			}
			if len(lg4.payloads) != 1 {
				panic(fmt.Sprintf("driver: expected one logged payload, got %d", len(lg4.payloads)))
			}
			signH = append(signH, sha(lg4.payloads[0]))
		}
		if r == 3 {
			// the same step signed as a member of a step LIST, two groups down (next to steps that are not signed): what is
			// signed for it - under the same pipeline env, with the same options - is what is signed for it alone
			st5 := buildStep(s["c"].(map[string]any), rng)
			cs5 := st5.CommandStep
			tree := pipeline.Steps{&pipeline.WaitStep{Contents: map[string]any{}}, &pipeline.GroupStep{Steps: pipeline.Steps{&pipeline.GroupStep{Steps: pipeline.Steps{&pipeline.WaitStep{Contents: map[string]any{}}, &cs5}}}}}
			lg5 := &payloadLogger{}
			if err := signature.SignSteps(ctx, tree, kp.sign, st5.RepositoryURL, signature.WithEnv(envOf(s["penv"], rng)), signature.WithLogger(lg5), signature.WithDebugSigning(true)); err != nil {
				panic("SignSteps of the step inside two groups: " + err.Error())
			}
			if len(lg5.payloads) != 1 {
				panic(fmt.Sprintf("signing the step inside two groups logged %d payloads under debug signing, not one", len(lg5.payloads)))
			}
			signH = append(signH, sha(lg5.payloads[0]))
		}
		if r == 0 {
			st2 := buildStep(s["c"].(map[string]any), rng)
			vl := &payloadLogger{}
			if err := signature.Verify(ctx, sig, keySetFor(alg, "signer"), st2, signature.WithEnv(envOf(s["penv"], rng)), signature.WithLogger(vl), signature.WithDebugSigning(true)); err != nil {
				panic("Verify of an unmodified step failed: " + err.Error())
			}
			if len(vl.payloads) != 1 {
				panic(fmt.Sprintf("driver: expected one logged payload from Verify, got %d", len(vl.payloads)))
			}
			verifyH = sha(vl.payloads[0])
		}
	}
	return
}

// permuteDoc returns a copy of the document with the keys of every mapping
// shuffled (sequences keep their order).
func permuteDoc(d any, rng *mrand.Rand) any {
	switch x := d.(type) {
	case orderedJSON:
		out := make([][2]any, len(x))
		for i, p := range x {
			out[i] = [2]any{p[0], permuteDoc(p[1], rng)}
		}
		rng.Shuffle(len(out), func(i, j int) { out[i], out[j] = out[j], out[i] })
		return orderedJSON(out)
	case []any:
		out := make([]any, len(x))
		for i, v := range x {
			out[i] = permuteDoc(v, rng)
		}
		return out
	}
	return d
}

// docPayload parses the document and returns the payload hashes of signing its first command step.
func docPayload(src string, R int) (signH []string, verifyH string) {
	ctx := context.Background()
	kp := getKey("EdDSA", "K1")
	for r := 0; r < R; r++ {
		pl, err := pipeline.Parse(strings.NewReader(src))
		if err != nil {
			panic("driver: document does not parse cleanly: " + err.Error() + "\n" + src)
		}
		cs, ok := pl.Steps[0].(*pipeline.CommandStep)
		if !ok {
			panic("driver: first step is not a command step\n" + src)
		}
		st := &signature.CommandStepWithInvariants{CommandStep: *cs, RepositoryURL: "https://example.com/r.git"}
		lg := &payloadLogger{}
		sig, err := signature.Sign(ctx, kp.sign, st, signature.WithEnv(pl.Env.ToMap()), signature.WithLogger(lg), signature.WithDebugSigning(true))
		if err != nil {
			panic("Sign: " + err.Error())
		}
		if len(lg.payloads) != 1 {
			panic("driver: expected one logged payload")
		}
		signH = append(signH, sha(lg.payloads[0]))
		if r == 0 {
			vl := &payloadLogger{}
			if err := signature.Verify(ctx, sig, keySetFor("EdDSA", "signer"), st, signature.WithEnv(pl.Env.ToMap()), signature.WithLogger(vl), signature.WithDebugSigning(true)); err != nil {
				panic("Verify of an unmodified step failed: " + err.Error())
			}
			verifyH = sha(vl.payloads[0])
		}
	}
	return
}

func c14Docs(tw *traceWriter, fl flags, R int) {
	rng := newRand(int64(fl.int("seed", 1)), "c14docs")
	n := 0
	strpool := []string{"a", "b", "x y", "1", "true", "v", "linux", "k"}
	for tw.n < fl.int("docs", 100) {
		n++
		ctr := 0
		g := &docGen{rng: rng, maxDepth: 3, noUnknown: true, noSig: true, pathPlugin: true}
		g.str = func(class string) string {
			ctr++
			switch class {
			case "key", "envname", "dim", "cachename":
				return fmt.Sprintf("k%d", ctr)
			case "pluginsrc":
				return fmt.Sprintf("./p%d", ctr)
			}
			return strpool[rng.Intn(len(strpool))] + fmt.Sprint(ctr%3)
		}
		g.plain = n%2 == 0
		step := g.commandStep()
		if n%2 == 0 {
			// unknown fields with nested mappings inside the matrix and inside an adjustment
			// (these stay ordered maps in the parsed step)
			for i := 0; i < len(step); i++ {
				if step[i][0] == "matrix" {
					step = append(step[:i], step[i+1:]...)
					i--
				}
			}
			nest := func() any {
				return orderedJSON([][2]any{{"exit_status", g.pick(9)}, {"signal", g.str("val")}, {"more", orderedJSON([][2]any{{"b", g.str("val")}, {"a", g.pick(5)}, {"c", []any{g.str("val")}}})}})
			}
			step = append(step, [2]any{"matrix", orderedJSON([][2]any{
				{"setup", orderedJSON([][2]any{{"os", []any{"linux", "mac"}}, {"arch", []any{"arm"}}})},
				{"adjustments", []any{orderedJSON([][2]any{{"with", orderedJSON([][2]any{{"os", "win"}, {"arch", "x"}})}, {"soft_fail", []any{nest(), nest()}}})}},
				{"notify", nest()},
			})})
		}
		// plugins as ONE mapping are order-significant: keep only the list forms
		for i, p := range step {
			if p[0] == "plugins" {
				if m, isMap := p[1].(orderedJSON); isMap {
					l := []any{}
					for _, e := range m {
						l = append(l, orderedJSON([][2]any{e}))
					}
					step[i][1] = l
				}
			}
		}
		x := orderedJSON([][2]any{{"env", orderedJSON([][2]any{{"PA", "1"}, {"PB", "2"}})}, {"steps", []any{step}}})
		y := permuteDoc(x, rng)
		sx, sy := string(asciiJSON(x)), string(asciiJSON(y))
		if sx == sy {
			continue
		}
		ev := obj{"kind": "perm", "c": obj{"x": avFromDoc(x), "y": avFromDoc(y)}, "hx": []string{}, "hy": []string{}, "vx": "", "vy": ""}
		p, msg := guarded(func() {
			hx, vx := docPayload(sx, R)
			hy, vy := docPayload(sy, R)
			ev["hx"], ev["hy"], ev["vx"], ev["vy"] = hx, hy, vx, vy
		})
		ev["panic"] = p
		if p {
			if strings.HasPrefix(msg, "driver:") {
				fatal("%s", msg)
			}
			ev["panicmsg"] = msg
		}
		ev["docx"], ev["docy"] = sx, sy
		tw.emit(ev)
	}
}

func runC14(args []string) {
	fl := parseFlags(args)
	tw := newTraceWriter(fl.str("out", ""))
	defer tw.close()
	R := fl.int("repeats", 5)
	if fl.str("docs", "") != "" {
		c14Docs(tw, fl, R)
		writeSummary(fl.str("summary", ""), obj{"events": tw.n})
		return
	}
	if fl.str("replaydocs", "") != "" {
		// replay of a rejected "perm" event: the two document texts are in the case
		readNDJSON(fl.str("cases", ""), func(n int, c obj) {
			ev := obj{"kind": "perm", "c": obj{"x": c["x"], "y": c["y"]}, "hx": []string{}, "hy": []string{}, "vx": "", "vy": ""}
			p, msg := guarded(func() {
				hx, vx := docPayload(c["docx"].(string), R)
				hy, vy := docPayload(c["docy"].(string), R)
				ev["hx"], ev["hy"], ev["vx"], ev["vy"] = hx, hy, vx, vy
			})
			ev["panic"] = p
			if p {
				ev["panicmsg"] = msg
			}
			tw.emit(ev)
		})
		return
	}
	samples := []any{}
	distinct := map[string]bool{}
	readNDJSON(fl.str("cases", ""), func(n int, c obj) {
		rot := int64(n) + int64(fl.int("seed", 1))*7919
		if r, ok := c["rot"].(json.Number); ok {
			rot, _ = r.Int64()
		}
		rng := newRand(rot, "c14")
		ev := obj{"c": obj{"x": c["x"], "y": c["y"], "rot": rot}, "hx": []string{}, "hy": []string{}, "vx": "", "vy": ""}
		p, msg := guarded(func() {
			hx, vx, px := payloadHashes(c["x"].(map[string]any), R, rng)
			hy, vy, _ := payloadHashes(c["y"].(map[string]any), R, rng)
			ev["hx"], ev["hy"], ev["vx"], ev["vy"] = hx, hy, vx, vy
			distinct[hx[0]] = true
			if len(samples) < 3 && n%311 == 5 {
				samples = append(samples, obj{"x": c["x"], "payload_x": px, "y": c["y"], "collide": hx[0] == hy[0]})
			}
		})
		ev["panic"] = p
		if p {
			if strings.HasPrefix(msg, "driver:") {
				fatal("%s", msg)
			}
			ev["panicmsg"] = msg
		}
		tw.emit(ev)
	})
	writeSummary(fl.str("summary", ""), obj{"events": tw.n, "distinct_payloads": len(distinct), "samples": samples})
}

// ---------------------------------------------------------------------------
// C06: SignSteps over step trees.
// ---------------------------------------------------------------------------

var c06SharedStale *pipeline.Signature // one stale signature object shared by several steps of the tree being built

func c06Build(nodes []any, path string, rng *mrand.Rand) pipeline.Steps {
	steps := pipeline.Steps{}
	for i, n := range nodes {
		nm := n.(map[string]any)
		p := fmt.Sprintf("%s/%d", path, i+1)
		switch nm["kind"] {
		case "command":
			cs := &pipeline.CommandStep{Command: "echo " + p, Label: "l" + p}
			names := strs(nm["env"])
			if len(names) > 0 || rng.Intn(2) == 0 {
				cs.Env = map[string]string{}
				for _, k := range names {
					// an empty value still shadows - and so does the very value the pipeline gives the same name ("pa" for A, "pb" for B)
					cs.Env[k] = []string{"step-" + k, "", "p" + strings.ToLower(k), "step-" + k}[rng.Intn(4)]
				}
				if rng.Intn(2) == 0 {
					// step-only variables that sort before, between and after the pipeline's names (which are A, B): they shadow nothing
					for _, k := range []string{"0_FIRST", "1_SECOND", "AA", "AB", "Z_LAST"} {
						cs.Env[k] = "only-" + k
					}
				}
			}
			switch rng.Intn(6) {
			case 0, 1:
				cs.Plugins = pipeline.Plugins{{Source: "docker#v1", Config: map[string]any{"image": "x" + p}}}
			case 2:
				cs.Plugins = pipeline.Plugins{} // present but empty: not for the signer to tidy up
			case 3:
				// plugins whose config is present but EMPTY (`docker#v1: {}`, `ecr#v2: []`): signing reads them, it does not tidy them up
				cs.Plugins = pipeline.Plugins{{Source: "docker#v1", Config: map[string]any{}}, {Source: "ecr#v2", Config: []any{}}, {Source: "./local", Config: nil}}
			}
			if rng.Intn(5) == 0 {
				cs.Matrix = &pipeline.Matrix{}
			}
			if rng.Intn(4) == 0 {
				// twins: every such step of a tree has the SAME command, and step envs that differ in content but not in how a
				// careless formatter prints them ({FLAGS: "-O2 TARGET:all"} vs {FLAGS: "-O2", TARGET: "all"}); A / B stay as set
				cs.Command, cs.Label = "echo twin", "l"+p
				cs.Plugins, cs.Matrix = nil, nil
				cs.Env = map[string]string{}
				for _, k := range names {
					cs.Env[k] = "step-" + k
				}
				if rng.Intn(2) == 0 {
					cs.Env["FLAGS"] = "-O2 TARGET:all"
				} else {
					cs.Env["FLAGS"], cs.Env["TARGET"] = "-O2", "all"
				}
			}
			if rng.Intn(4) == 0 {
				cs.RemainingFields = map[string]any{"agents": map[string]any{"queue": "q"}}
			}
			if rng.Intn(4) == 0 {
				// a stale signature from an earlier signing run must be replaced, whatever its algorithm says
				cs.Signature = &pipeline.Signature{Algorithm: []string{"EdDSA", "ES512", "PS512", "ES256"}[rng.Intn(4)],
					SignedFields: []string{"command", "env", "matrix", "plugins", "repository_url"}, Value: "eyJhbGciOiJFZERTQSJ9..c3RhbGU"}
			} else if rng.Intn(3) == 0 {
				// ... also when several steps (stamped out of one signed template) hold the very same stale object: each
				// step gets a signature of its own
				if c06SharedStale == nil {
					c06SharedStale = &pipeline.Signature{Algorithm: "EdDSA", SignedFields: []string{"command", "env", "matrix", "plugins", "repository_url"}, Value: "eyJhbGciOiJFZERTQSJ9..c2hhcmVk"}
				}
				cs.Signature = c06SharedStale
			}
			steps = append(steps, cs)
		case "wait":
			if rng.Intn(2) == 0 {
				steps = append(steps, &pipeline.WaitStep{Scalar: "wait"})
			} else {
				steps = append(steps, &pipeline.WaitStep{Contents: map[string]any{"wait": nil, "if": "x" + p}})
			}
		case "input":
			steps = append(steps, &pipeline.InputStep{Contents: map[string]any{"block": "b" + p}})
		case "trigger":
			steps = append(steps, &pipeline.TriggerStep{Contents: map[string]any{"trigger": "t" + p}})
		case "unknown":
			steps = append(steps, &pipeline.UnknownStep{Contents: "mystery" + p})
		case "group":
			g := "g" + p
			kids, _ := nm["kids"].([]any)
			gs := &pipeline.GroupStep{Group: &g, Steps: c06Build(kids, p, rng)}
			if rng.Intn(3) == 0 {
				gs.Group = nil // `group: ~` - a group without a label is still a group
			}
			steps = append(steps, gs)
		default:
			fatal("c06: bad kind %v", nm["kind"])
		}
	}
	return steps
}

func c06Commands(steps pipeline.Steps, out *[]*pipeline.CommandStep) {
	for _, s := range steps {
		switch t := s.(type) {
		case *pipeline.CommandStep:
			*out = append(*out, t)
		case *pipeline.GroupStep:
			c06Commands(t.Steps, out)
		}
	}
}

func c06Strip(steps pipeline.Steps) {
	var cmds []*pipeline.CommandStep
	c06Commands(steps, &cmds)
	for _, c := range cmds {
		c.Signature = nil
	}
}

func runC06(args []string) {
	fl := parseFlags(args)
	tw := newTraceWriter(fl.str("out", ""))
	defer tw.close()
	samples := []any{}
	algs := []string{"EdDSA", "ES512", "PS512", "ES256"}
	nsigned := 0
	ctx := context.Background()
	readNDJSON(fl.str("cases", ""), func(n int, c obj) {
		alg := algs[n%len(algs)]
		if a, ok := c["alg"].(string); ok {
			alg = a
		}
		rot := int64(n) + int64(fl.int("seed", 1))*104729
		if r, ok := c["rot"].(json.Number); ok {
			rot, _ = r.Int64() // replay: the random decorations of the tree are a function of the case alone
		}
		rng := newRand(rot, "c06")
		tree, _ := c["tree"].([]any)
		ev := obj{"c": obj{"tree": tree, "penv": c["penv"], "alg": alg, "rot": rot}, "err": false, "cmds": []any{}, "unchanged": false, "envunchanged": false}
		p, msg := guarded(func() {
			c06SharedStale = nil
			steps := c06Build(tree, "", rng)
			penv := envOf(c["penv"], rng)
			penvCopy := map[string]string{}
			for k, v := range penv {
				penvCopy[k] = v
			}
			// non-signature content before (stale signatures, if any, put aside for the snapshot)
			var pre []*pipeline.CommandStep
			c06Commands(steps, &pre)
			stale := make([]*pipeline.Signature, len(pre))
			for i, c := range pre {
				stale[i], c.Signature = c.Signature, nil
			}
			// (the exact representation is taken FIRST, before any library call - also before the driver's own marshalling)
			repBefore := repDigest(steps) // nil vs empty, slice capacities ..., signatures set aside
			before, err := json.Marshal(steps)
			if err != nil {
				panic("driver: marshal before: " + err.Error())
			}
			if repDigest(steps) != repBefore {
				panic("marshalling the steps (an observer) changed their representation")
			}
			for i, c := range pre {
				c.Signature = stale[i]
			}
			kp := getKey(alg, "K1")
			repo := "https://example.com/repo.git"
			serr := signature.SignSteps(ctx, steps, kp.sign, repo, signature.WithEnv(penv))
			ev["err"] = serr != nil
			if serr != nil {
				ev["errmsg"] = serr.Error()
			}
			var cmds []*pipeline.CommandStep
			c06Commands(steps, &cmds)
			cl := []any{}
			for _, cs := range cmds {
				e := obj{"signed": cs.Signature != nil, "alg": "", "fields": []string{}, "sorted": true, "verifies": false, "cmd": cs.Command}
				if cs.Signature != nil {
					nsigned++
					e["alg"] = cs.Signature.Algorithm
					e["fields"] = append([]string{}, cs.Signature.SignedFields...)
					e["sorted"] = sort.StringsAreSorted(cs.Signature.SignedFields)
					verr := signature.Verify(ctx, cs.Signature, keySetFor(alg, "signer"),
						&signature.CommandStepWithInvariants{CommandStep: *cs, RepositoryURL: repo}, signature.WithEnv(penvCopy))
					e["verifies"] = verr == nil
					if verr != nil {
						e["verr"] = verr.Error()
					}
				}
				cl = append(cl, e)
			}
			ev["cmds"] = cl
			envSame := len(penv) == len(penvCopy)
			for k, v := range penvCopy {
				if penv[k] != v {
					envSame = false
				}
			}
			ev["envunchanged"] = envSame
			c06Strip(steps)
			after, err := json.Marshal(steps)
			if err != nil {
				panic("marshal after: " + err.Error())
			}
			// marshalled forms equal AND the objects themselves untouched (a field turned from empty to nil marshals the same)
			ev["unchanged"] = string(before) == string(after) && repDigest(steps) == repBefore
		})
		ev["panic"] = p
		if p {
			if strings.HasPrefix(msg, "driver:") {
				fatal("%s", msg)
			}
			ev["panicmsg"] = msg
		}
		if len(samples) < 3 && n%2003 == 11 {
			samples = append(samples, obj{"tree": tree, "penv": c["penv"], "alg": alg, "err": ev["errmsg"], "commands": ev["cmds"]})
		}
		tw.emit(ev)
	})
	writeSummary(fl.str("summary", ""), obj{"events": tw.n, "signatures_made": nsigned, "samples": samples})
}

// installFixedKey makes EdDSA/K1 a deterministic key (fixed seed), so that
// separate processes produce identical signatures (C19's reference run).
func installFixedKey() {
	seed := bytes.Repeat([]byte{0x5a}, ed25519.SeedSize)
	priv := ed25519.NewKeyFromSeed(seed)
	pk, err := jwk.FromRaw(priv)
	if err != nil {
		fatal("fixed key: %v", err)
	}
	pk.Set(jwk.AlgorithmKey, jwa.EdDSA)
	pk.Set(jwk.KeyIDKey, "fixed")
	uk, err := jwk.PublicKeyOf(pk)
	if err != nil {
		fatal("fixed key: %v", err)
	}
	set := jwk.NewSet()
	set.AddKey(uk)
	keyring["EdDSA/K1"] = &keyPair{alg: "EdDSA", sign: pk, verify: set, pub: uk}
}
