package main

import (
	"bufio"
	"encoding/base64"
	"encoding/json"
	"errors"
	"fmt"
	"io"
	"math"
	"os"
	"os/exec"
	"strings"
	"time"

	pipeline "github.com/buildkite/go-pipeline"
	"github.com/buildkite/go-pipeline/warning"
	"gopkg.in/yaml.v3"
)

// C13: Parse is total. Inputs: grammar documents with one injected type error
// (every node position x every other kind), and seeded byte-level mutations of
// a corpus. Each Parse runs under recover and a deadline.

type kindRec = map[string]any

func kindsRec(steps pipeline.Steps) []any {
	out := []any{}
	for _, s := range steps {
		if g, ok := s.(*pipeline.GroupStep); ok && g != nil {
			out = append(out, kindRec{"k": "group", "kids": kindsRec(g.Steps)})
		} else {
			out = append(out, kindRec{"k": stepKind(s), "kids": []any{}})
		}
	}
	return out
}

func countUnknown(steps pipeline.Steps) int {
	n := 0
	for _, s := range steps {
		switch t := s.(type) {
		case *pipeline.UnknownStep:
			n++
		case *pipeline.GroupStep:
			if t != nil {
				n += countUnknown(t.Steps)
			}
		}
	}
	return n
}

// countFallbacks walks the warning tree and counts the reports of a fallback to an unknown step.
func countFallbacks(err error) int {
	if err == nil {
		return 0
	}
	n := 0
	if w, ok := err.(*warning.Warning); ok {
		if strings.Contains(firstLine(w.Error()), "fell back using unknown type of step") && hasOwnMessage(w, "fell back using unknown type of step") {
			n++
			return n // the wrapped cause is the reason for this one fallback
		}
		for _, e := range w.Unwrap() {
			n += countFallbacks(e)
		}
		return n
	}
	if errors.Is(err, pipeline.ErrStepTypeInference) || errors.Is(err, pipeline.ErrUnknownStepType) {
		return 1
	}
	if u, ok := err.(interface{ Unwrap() []error }); ok {
		for _, e := range u.Unwrap() {
			n += countFallbacks(e)
		}
	} else if u, ok := err.(interface{ Unwrap() error }); ok {
		n += countFallbacks(u.Unwrap())
	}
	return n
}

func firstLine(s string) string {
	if i := strings.IndexByte(s, '\n'); i >= 0 {
		return s[:i]
	}
	return s
}

// hasOwnMessage: the warning's own message (not a child's) is the given text.
func hasOwnMessage(w *warning.Warning, msg string) bool {
	return strings.HasPrefix(w.Error(), msg)
}

// expansionSize of a node graph (aliases expanded), capped; cycles count as huge only if they are value cycles
func expansionSize(n *yaml.Node, memo map[*yaml.Node]float64, onPath map[*yaml.Node]bool) float64 {
	if n == nil {
		return 0
	}
	if onPath[n] {
		return 1 // a cycle: the decoder must reject or tolerate it on its own; not an expansion-size matter
	}
	if v, ok := memo[n]; ok {
		return v
	}
	onPath[n] = true
	total := 1.0
	if n.Kind == yaml.AliasNode {
		total += expansionSize(n.Alias, memo, onPath)
	}
	for _, c := range n.Content {
		total += expansionSize(c, memo, onPath)
		if total > 1e9 {
			break
		}
	}
	delete(onPath, n)
	memo[n] = total
	return total
}

// mergedSize: the size of what the node graph DECODES to (aliases expanded), where a mapping's merges contribute
// every mapping of the merge closure once - merged keys are a set, however many paths lead to a source.
func mergedSize(n *yaml.Node, memo map[*yaml.Node]float64, onPath map[*yaml.Node]bool) float64 {
	if n == nil {
		return 0
	}
	if onPath[n] {
		return 1
	}
	if v, ok := memo[n]; ok {
		return v
	}
	onPath[n] = true
	total := 1.0
	switch n.Kind {
	case yaml.AliasNode:
		total += mergedSize(n.Alias, memo, onPath)
	case yaml.MappingNode:
		closure, order := map[*yaml.Node]bool{}, []*yaml.Node{}
		var close func(x *yaml.Node, depth int)
		close = func(x *yaml.Node, depth int) {
			if x == nil || closure[x] || depth > 10000 {
				return
			}
			closure[x] = true
			switch x.Kind {
			case yaml.AliasNode:
				close(x.Alias, depth+1)
			case yaml.SequenceNode:
				for _, c := range x.Content {
					close(c, depth+1)
				}
			case yaml.MappingNode:
				order = append(order, x)
				for i := 0; i+1 < len(x.Content); i += 2 {
					if x.Content[i].Tag == "!!merge" {
						close(x.Content[i+1], depth+1)
					}
				}
			}
		}
		close(n, 0)
		for _, m := range order {
			for i := 0; i+1 < len(m.Content) && total <= 1e9; i += 2 {
				if m.Content[i].Tag != "!!merge" {
					total += mergedSize(m.Content[i], memo, onPath) + mergedSize(m.Content[i+1], memo, onPath)
				}
			}
		}
	default:
		for _, c := range n.Content {
			total += mergedSize(c, memo, onPath)
			if total > 1e9 {
				break
			}
		}
	}
	delete(onPath, n)
	memo[n] = total
	return total
}

var avExotic bool

// inputSteps extracts the input step sequence (as AV) from the raw bytes with plain yaml.v3 nodes.
func inputSteps(src []byte) (steps any, ok bool, nonfinite bool, tooBig bool) {
	var n yaml.Node
	if err := yaml.Unmarshal(src, &n); err != nil {
		return nil, false, false, false
	}
	if mergedSize(&n, map[*yaml.Node]float64{}, map[*yaml.Node]bool{}) > 2e5 {
		return nil, false, false, true
	}
	if expansionSize(&n, map[*yaml.Node]float64{}, map[*yaml.Node]bool{}) > 2e5 {
		// the DECODED document is small, only the merge TREE is large (the same few mappings merged along many
		// paths): in scope, but the harness's own walker follows every path - the step sequence is not read,
		// totality, time and marshalling are still judged
		return nil, false, nodeHasNonFinite(&n, map[*yaml.Node]bool{}), false
	}
	avExotic = false
	a, err := avFromNode(&n, 0)
	if err != nil {
		// (e.g. a merge cycle the harness's own walker gives up on): still say whether a non-finite float is written
		return nil, false, nodeHasNonFinite(&n, map[*yaml.Node]bool{}), false
	}
	if avExotic {
		// the step sequence cannot be read unambiguously, but whether the input holds a non-finite float can
		return nil, false, hasNonFinite(a), false
	}
	if hasDupKeys(a) {
		return nil, false, hasNonFinite(a), false
	}
	nf := hasNonFinite(a)
	am, _ := a.(obj)
	switch am["t"] {
	case "q":
		return a, true, nf, false
	case "m":
		for _, p := range am["kv"].([]any) {
			pp := p.([]any)
			if pp[0] == "steps" {
				v := pp[1].(obj)
				if v["t"] == "q" {
					return v, true, nf, false
				}
				if v["t"] == "z" {
					return obj{"t": "q", "e": []any{}}, true, nf, false
				}
				return nil, false, nf, false
			}
		}
		return obj{"t": "q", "e": []any{}}, true, nf, false
	}
	return nil, false, nf, false
}

// nodeHasNonFinite: some scalar of the raw node graph is a non-finite float (.inf, -.inf, .nan).
func nodeHasNonFinite(n *yaml.Node, seen map[*yaml.Node]bool) bool {
	if n == nil || seen[n] {
		return false
	}
	seen[n] = true
	if n.Kind == yaml.ScalarNode && n.ShortTag() == "!!float" {
		var f float64
		if n.Decode(&f) == nil && (math.IsInf(f, 0) || math.IsNaN(f)) {
			return true
		}
	}
	if n.Kind == yaml.AliasNode && nodeHasNonFinite(n.Alias, seen) {
		return true
	}
	for _, c := range n.Content {
		if nodeHasNonFinite(c, seen) {
			return true
		}
	}
	return false
}

func hasDupKeys(a any) bool {
	m, _ := a.(obj)
	switch m["t"] {
	case "m":
		seen := map[string]bool{}
		for _, p := range m["kv"].([]any) {
			pp := p.([]any)
			if seen[pp[0].(string)] {
				return true
			}
			seen[pp[0].(string)] = true
			if hasDupKeys(pp[1]) {
				return true
			}
		}
	case "q":
		for _, x := range m["e"].([]any) {
			if hasDupKeys(x) {
				return true
			}
		}
	}
	return false
}

func hasNonFinite(a any) bool {
	m, _ := a.(obj)
	switch m["t"] {
	case "n":
		s, _ := m["v"].(string)
		return strings.Contains(s, "Inf") || strings.Contains(s, "NaN")
	case "m":
		for _, p := range m["kv"].([]any) {
			if hasNonFinite(p.([]any)[1]) {
				return true
			}
		}
	case "q":
		for _, x := range m["e"].([]any) {
			if hasNonFinite(x) {
				return true
			}
		}
	}
	return false
}

func c13Event(src []byte, origin string) obj {
	ev := obj{"origin": origin, "srcb64": base64.StdEncoding.EncodeToString(src), "panic": false, "timeout": false, "outcome": "hard",
		"jsonok": false, "yamlok": false, "stepsislist": false, "hasin": false, "instep": obj{"t": "q", "e": []any{}},
		"outsteps": obj{"t": "q", "e": []any{}}, "kinds": []any{}, "nunknown": 0, "nfallback": 0, "nonfinite": false, "wsmultiline": false, "skipped": false, "crash": false}
	ins, ok, nf, tooBig := inputSteps(src)
	ev["nonfinite"] = nf
	if tooBig {
		ev["skipped"] = true
		return ev
	}
	type result struct {
		p   *pipeline.Pipeline
		err error
	}
	done := make(chan result, 1)
	var pmsg string
	go func() {
		defer func() {
			if r := recover(); r != nil {
				pmsg = fmt.Sprint(r)
				done <- result{nil, errors.New("panic")}
			}
		}()
		p, err := pipeline.Parse(strings.NewReader(string(src)))
		done <- result{p, err}
	}()
	var res result
	select {
	case res = <-done:
	case <-time.After(8 * time.Second):
		ev["timeout"] = true
		return ev
	}
	if pmsg != "" {
		ev["panic"], ev["panicmsg"] = true, pmsg
		return ev
	}
	if res.err != nil && !warning.Is(res.err) {
		ev["errmsg"] = firstLine(res.err.Error())
		return ev
	}
	ev["outcome"] = "ok"
	if res.err != nil {
		ev["outcome"] = "warn"
	}
	p2, msg := guarded(func() {
		ev["nunknown"] = countUnknown(res.p.Steps)
		ev["nfallback"] = countFallbacks(res.err)
		ev["kinds"] = kindsRec(res.p.Steps)
		jb, err := json.Marshal(res.p)
		if err != nil {
			ev["jsonerr"] = err.Error()
		} else {
			ev["jsonok"] = true
			jav := mustAVJSON(jb, "json output").(obj)
			ev["wsmultiline"] = hasWSMultiline(jav)
			for _, p := range jav["kv"].([]any) {
				pp := p.([]any)
				if pp[0] == "steps" {
					if v := pp[1].(obj); v["t"] == "q" {
						ev["stepsislist"], ev["outsteps"] = true, v
					}
				}
			}
		}
		if _, err := yaml.Marshal(res.p); err != nil {
			ev["yamlerr"] = err.Error()
		} else {
			ev["yamlok"] = true
		}
		if ok {
			ev["hasin"], ev["instep"] = true, ins
		}
	})
	if p2 {
		ev["panic"], ev["panicmsg"] = true, "after Parse: "+msg
	}
	return ev
}

// ---- injected type errors ----

type docPath []any

func enumPaths(d any, prefix docPath, out *[]docPath) {
	*out = append(*out, append(docPath{}, prefix...))
	switch x := d.(type) {
	case orderedJSON:
		for i, p := range x {
			enumPaths(p[1], append(prefix, i), out)
		}
	case []any:
		for i, v := range x {
			enumPaths(v, append(prefix, i), out)
		}
	}
}

func replaceAt(d any, path docPath, v any) any {
	if len(path) == 0 {
		return v
	}
	i := path[0].(int)
	switch x := d.(type) {
	case orderedJSON:
		out := append(orderedJSON{}, x...)
		out[i] = [2]any{x[i][0], replaceAt(x[i][1], path[1:], v)}
		return out
	case []any:
		out := append([]any{}, x...)
		out[i] = replaceAt(x[i], path[1:], v)
		return out
	}
	return d
}

func kindOfDoc(d any) string {
	switch d.(type) {
	case orderedJSON:
		return "map"
	case []any:
		return "seq"
	case string:
		return "str"
	case nil:
		return "null"
	case bool:
		return "bool"
	}
	return "num"
}

var c13Replacements = map[string]any{
	"map": orderedJSON{{"injected", "x"}, {"other", 1}}, "seq": []any{"injected", 2}, "str": "injected", "null": nil, "bool": true, "num": 42,
	"float": 2.5, "emptymap": orderedJSON{}, "emptyseq": []any{},
}

// c13Worker: child mode. Reads "origin<TAB>base64" lines, answers one event per line.
// A fatal error (stack overflow) kills only this process; the parent records it.
func c13Worker() {
	in := bufio.NewReaderSize(os.Stdin, 1<<20)
	out := bufio.NewWriter(os.Stdout)
	for {
		line, err := in.ReadString('\n')
		if len(line) > 0 {
			origin, b64, _ := strings.Cut(strings.TrimRight(line, "\n"), "\t")
			b, derr := base64.StdEncoding.DecodeString(b64)
			if derr != nil {
				fatal("worker: %v", derr)
			}
			out.Write(asciiJSON(c13Event(b, origin)))
			out.WriteByte('\n')
			out.Flush()
		}
		if err != nil {
			return
		}
	}
}

type c13Child struct {
	cmd *exec.Cmd
	in  io.WriteCloser
	out *bufio.Reader
}

func startC13Child() *c13Child {
	cmd := exec.Command(os.Args[0], "c13", "-worker", "1")
	in, err := cmd.StdinPipe()
	if err != nil {
		fatal("child pipe: %v", err)
	}
	outp, err := cmd.StdoutPipe()
	if err != nil {
		fatal("child pipe: %v", err)
	}
	cmd.Stderr = io.Discard
	if err := cmd.Start(); err != nil {
		fatal("child start: %v", err)
	}
	return &c13Child{cmd: cmd, in: in, out: bufio.NewReaderSize(outp, 1<<22)}
}

var c13child *c13Child

// c13Isolated runs one input in the worker child; a dead or silent child is an observed crash / hang of that input.
func c13Isolated(src []byte, origin string) obj {
	if c13child == nil {
		c13child = startC13Child()
	}
	fmt.Fprintf(c13child.in, "%s\t%s\n", origin, base64.StdEncoding.EncodeToString(src))
	type ans struct {
		line string
		err  error
	}
	ch := make(chan ans, 1)
	child := c13child
	go func() { l, err := child.out.ReadString('\n'); ch <- ans{l, err} }()
	blank := c13Event(nil, origin) // shape of an event
	blank["srcb64"] = base64.StdEncoding.EncodeToString(src)
	blank["skipped"], blank["outcome"] = false, "hard"
	select {
	case a := <-ch:
		if a.err != nil || len(a.line) == 0 {
			child.cmd.Process.Kill()
			child.cmd.Wait()
			c13child = nil
			blank["crash"] = true
			return blank
		}
		var ev obj
		d := json.NewDecoder(strings.NewReader(a.line))
		d.UseNumber()
		if err := d.Decode(&ev); err != nil {
			fatal("child answer: %v", err)
		}
		return ev
	case <-time.After(20 * time.Second):
		child.cmd.Process.Kill()
		child.cmd.Wait()
		c13child = nil
		blank["timeout"] = true
		return blank
	}
}

func runC13(args []string) {
	fl := parseFlags(args)
	if fl.str("worker", "") != "" {
		c13Worker()
		return
	}
	tw := newTraceWriter(fl.str("out", ""))
	defer tw.close()
	defer func() {
		if c13child != nil {
			c13child.in.Close()
			c13child.cmd.Wait()
		}
	}()
	samples := []any{}
	outcomes := map[string]int{}
	emit := func(ev obj) {
		if ev["skipped"] == true {
			return
		}
		outcomes[ev["outcome"].(string)]++
		if len(samples) < 3 && tw.n%499 == 7 {
			b, _ := base64.StdEncoding.DecodeString(ev["srcb64"].(string))
			samples = append(samples, obj{"origin": ev["origin"], "input": string(b), "outcome": ev["outcome"], "kinds": ev["kinds"], "error": ev["errmsg"]})
		}
		tw.emit(ev)
	}
	if cf := fl.str("cases", ""); cf != "" {
		readNDJSON(cf, func(_ int, c obj) {
			b, err := base64.StdEncoding.DecodeString(c["srcb64"].(string))
			if err != nil {
				fatal("bad srcb64: %v", err)
			}
			emit(c13Isolated(b, "replay"))
		})
		writeSummary(fl.str("summary", ""), obj{"events": tw.n})
		return
	}
	rng := newRand(int64(fl.int("seed", 1)), "c13")
	var corpus [][]byte
	// (i) one injected type error at every node position
	for i, n := 0, fl.int("docs", 10); i < n; i++ {
		g := newDocGen(rng)
		g.maxDepth = 2
		doc := g.pipeline()
		corpus = append(corpus, utf8JSON(doc))
		st := &yamlStyle{rng: rng, flow: rng.Intn(3), quote: rng.Intn(3), factor: true}
		ytext, _ := renderYAML(doc, st)
		corpus = append(corpus, []byte(ytext))
		var paths []docPath
		enumPaths(doc, nil, &paths)
		for _, p := range paths {
			orig := lookupDoc(doc, p)
			for name, rep := range c13Replacements {
				if strings.HasPrefix(name, kindOfDoc(orig)) && name == kindOfDoc(orig) {
					continue
				}
				if fl.int("injectsample", 1) > 1 && rng.Intn(fl.int("injectsample", 1)) != 0 {
					continue
				}
				emit(c13Isolated(utf8JSON(replaceAt(doc, p, rep)), "inject:"+name))
			}
		}
	}
	// (ii) handwritten seeds with anchors, merges, odd shapes
	for _, s := range c13Seeds {
		corpus = append(corpus, []byte(s))
		emit(c13Isolated([]byte(s), "seed"))
	}
	// (iii) byte-level mutations
	dict := []string{"&a ", "*a", "<<: ", "!!", "{", "}", "[", "]", "? ", ": ", "- ", "|", ">", "\t", "\xef\xbb\xbf", "\x00", "---\n", "...\n", "~", "null",
		"steps:", "type:", "group:", "command:", "wait", "plugins:", "matrix:", "env:", "cache:", ".inf", ".nan", "0x1F", "!!binary ", "!!timestamp ",
		"2001-12-14t21:59:43.10-05:00", "'", "\"", "#", "%YAML 1.2\n", "&b [", "*b ]", "\n    ", "\n", ",", "18446744073709551615", "-9223372036854775809", "1e400"}
	for i, n := 0, fl.int("mutations", 1000); i < n; i++ {
		base := corpus[rng.Intn(len(corpus))]
		b := append([]byte{}, base...)
		for k, m := 0, 1+rng.Intn(4); k < m && len(b) > 0; k++ {
			pos := rng.Intn(len(b))
			switch rng.Intn(6) {
			case 0:
				b[pos] = byte(rng.Intn(256))
			case 1:
				tok := dict[rng.Intn(len(dict))]
				b = append(b[:pos:pos], append([]byte(tok), b[pos:]...)...)
			case 2:
				end := pos + rng.Intn(1+minInt(40, len(b)-pos))
				b = append(b[:pos:pos], b[end:]...)
			case 3:
				end := pos + rng.Intn(1+minInt(60, len(b)-pos))
				seg := append([]byte{}, b[pos:end]...)
				at := rng.Intn(len(b))
				b = append(b[:at:at], append(seg, b[at:]...)...)
			case 4:
				b[pos] ^= 1 << uint(rng.Intn(8))
			case 5:
				if nl := strings.IndexByte(string(b[pos:]), '\n'); nl >= 0 {
					b = append(b[:pos+nl+1:pos+nl+1], append([]byte(strings.Repeat(" ", rng.Intn(6))), b[pos+nl+1:]...)...)
				}
			}
		}
		if len(b) > 1<<16 {
			b = b[:1<<16]
		}
		emit(c13Isolated(b, "mutation"))
	}
	writeSummary(fl.str("summary", ""), obj{"events": tw.n, "outcomes": outcomes, "samples": samples})
}

func minInt(a, b int) int {
	if a < b {
		return a
	}
	return b
}

func lookupDoc(d any, path docPath) any {
	for _, i := range path {
		switch x := d.(type) {
		case orderedJSON:
			d = x[i.(int)][1]
		case []any:
			d = x[i.(int)]
		}
	}
	return d
}

var c13Seeds = []string{
	"", "null", "~", "[]", "{}", "steps: null", "steps: []", "- wait", "hello", "42", "steps: hello", "steps: {a: b}", "steps: [[wait]]", "steps: [null]",
	"steps: [42]", "steps: [{type: 7}]", "steps: [{type: [a]}]", "steps: [{type: ~, command: x}]", "env: [a, b]\nsteps: []", "env: hello\nsteps: []",
	"env: {A: {b: c}}\nsteps: []", "steps:\n  - group: g\n    steps: hello", "steps:\n  - group: g\n    steps: [42]", "steps:\n  - group: g\n    steps: [{foo: bar}, wait]",
	"steps:\n  - group: ~\n    steps:\n      - group: inner\n        steps:\n          - command: x\n          - nope",
	"a: &a [*a]", "a: &a {b: *a}", "a: &a\n  <<: *a\n  c: d\nsteps: []", "base: &b {command: x}\nsteps:\n  - <<: *b\n  - <<: [*b, *b]\n    label: l",
	"steps:\n  - command: x\n    plugins: 5", "steps:\n  - command: x\n    plugins: [5]", "steps:\n  - command: x\n    plugins: [[a]]",
	"steps:\n  - command: x\n    matrix: hello", "steps:\n  - command: x\n    matrix: {setup: {a: 5}}", "steps:\n  - command: x\n    matrix: {setup: [a], adjustments: [{with: [1]}]}",
	"steps:\n  - command: x\n    cache: 12", "steps:\n  - command: x\n    cache: {paths: {a: b}}", "steps:\n  - command: x\n    env: [a]", "steps:\n  - command: x\n    env: {A: [1]}",
	"steps:\n  - command: x\n    signature: hello", "steps:\n  - command: x\n    signature: {signed_fields: x}", "steps:\n  - command: {a: b}", "steps:\n  - commands: {a: b}",
	"steps:\n  - command: x\n    key: [a]", "steps:\n  - command: x\n    label: {a: b}", "steps:\n  - wait: ~\n    ? [a, b]\n    : c", "? [a]\n: b\nsteps: []", "? {a: b}\n: c",
	"steps:\n  - 18446744073709551615: big\n    command: x", "steps:\n  - command: x\n    env: {18446744073709551615: big}", "steps:\n  - command: x\n    x: .inf", "steps:\n  - command: x\n    x: .nan",
	"steps:\n  - command: x\n    x: 2001-12-14t21:59:43.10-05:00", "steps:\n  - command: x\n    x: !!binary aGVsbG8=", "steps:\n  - !!str wait", "--- \nsteps: []\n--- \nsteps: [wait]",
	"steps:\n  - trigger: t\n    n:\n      q: [\"\\na\"]", "steps:\n  - command: x\n    \"<<\": y", "steps:\n  - null: x\n    command: y", "steps:\n  - ~: x", "\xff\xfe", "\x00", "{\"steps\": [{\"command\": \"x\"}]",
	"steps:\n\t- wait", "%YAML 1.1\n---\nsteps: [wait]", "steps: [wait]\n...\njunk", "&a steps: [*a]", "steps: &s [wait, *s]", "steps: [&w wait, *w, *w]",
	// keys that need escapes JSON and Go spell differently (control characters, DEL, a non-printable non-BMP rune)
	"steps:\n  - command: x\n    agents: {\"\\e\": 1, \"\\a\": 2, \"\\v\": 3, \"\\x7f\": 4, \"\\0\": 5}", "env: {\"K\\e\": v}\nsteps:\n  - wait: ~\n    \"\\U000E0001\": x",
	"steps:\n  - \"\\b\\f\": {\"\\x1f\": [{\"\\N\": 1}]}\n    trigger: t",
	// self-containing sequences (no mapping node on the cycle) as merge values and as values
	"steps:\n  - {command: x, <<: &loop [*loop]}\n  - wait", "steps:\n  - command: x\n    <<: &p [&q [*p, *q]]", "<<: &l [[*l]]\nsteps: [wait]",
	"steps:\n  - trigger: t\n    cfg: {<<: &s [*s, *s], a: 1}", "steps:\n  - &m {command: x, <<: [*m]}", "steps:\n  - &m {command: x, y: {<<: [[*m]]}}",
	"steps:\n  - command: x\n    y: &v [1, [*v]]", "env: {<<: &e [*e]}\nsteps: []", "base: &b {<<: &z [*z], command: c}\nsteps: [*b, {<<: *b}]",
	strings.Repeat("[", 200) + strings.Repeat("]", 200), strings.Repeat("{a: ", 200) + "x" + strings.Repeat("}", 200),
	"steps:\n" + strings.Repeat("  - wait\n", 500),
}

var _ = math.Inf

func init() {
	// malformed command steps that carry rich, ORDER-BEARING content in the fields decoded before the bad one: the
	// fallback keeps the step as written, whatever the attempt to decode it as a command step did on the way
	rich := "    plugins:\n      - docker#v1: {volumes: [{z: 1, a: 2}, {m: [{y: 1, b: 2}]}], zeta: {q: 1, b: 2}}\n      - ./local: [{k: 1, c: 2}]\n" +
		"    env: {ZED: z, ALPHA: a}\n    agents: {queue: q, arch: [{z: 1, a: 2}]}\n"
	for _, bad := range []string{"    matrix: 5\n", "    env2: x\n    matrix: {setup: {a: 5}}\n", "    cache: [1]\n", "    signature: 7\n", "    label: [a]\n", "    key: {a: b}\n",
		"    command: {a: b}\n", "    commands: {a: b}\n"} {
		body := rich + bad
		if !strings.Contains(bad, "command") {
			body = "    command: make\n" + body
		}
		indent := func(t, pad string) string {
			lines := strings.Split(strings.TrimSuffix(t, "\n"), "\n")
			return pad + strings.Join(lines, "\n"+pad) + "\n"
		}
		c13Seeds = append(c13Seeds, "steps:\n  -\n"+body, "steps:\n  - wait\n  -\n"+body+"  - group: g\n    steps:\n      -\n"+indent(body, "    ")+"      - wait\n")
	}
	c13Seeds = append(c13Seeds, "steps:\n  - command: make\n    plugins:\n      - a#v1: {l: [{z: 1, a: 2}]}\n      - [bad]\n",
		"steps:\n  - command: make\n    plugins: {a#v1: {l: [{z: 1, a: 2}]}, b#v1: 5, c#v1: {l: [{y: 1, b: 2}]}}\n    env: [x]\n")
	// !!binary scalars whose payload is NOT valid UTF-8 (0xFF, 0xC3 0x28), as values and keys inside order-preserving maps
	c13Seeds = append(c13Seeds, "env: {A: !!binary /w==, B: !!binary wyg=}\nsteps:\n  - command: x\n    agents: {queue: !!binary /w==}\n  - trigger: t\n    build: {message: !!binary wyg=, env: {K: !!binary /w==}}\n",
		"steps:\n  - mystery: !!binary /w==\n    nested: {deep: [!!binary /w==, {k: !!binary wyg=}]}\n  - !!binary /w==\n", "steps:\n  - command: x\n    label: !!binary /w==\n    plugins:\n      - p#v1: {v: !!binary /w==}\n")
	// plugin sources that are legal text but unusual as URLs: nothing but a ref, nothing but a query, only separators, a bare
	// host, an empty string - the canonical source is computed when the pipeline is written out
	c13Seeds = append(c13Seeds, "steps:\n  - command: make\n    plugins:\n      - \"#v1.2.3\"\n      - \"#\": {a: 1}\n      - \"?x\"\n      - \"?\": ~\n",
		"steps:\n  - command: make\n    plugins:\n      - \"/\"\n      - \"//\": {a: 1}\n      - \"///#r\"\n      - \"//host\"\n      - \"\"\n      - \" \"\n      - \"a//b\"\n      - \"/#\"\n",
		"steps:\n  - plugins: {\"#v1\": ~, \"?q#f\": {k: v}, \"%zz\": ~, \"a b#c d\": ~, \":\": ~, \"::\": ~, \"x:\": ~, \":x\": ~}\n")
	// layered merges: each layer merges the two fragments of the layer below - 2^depth merge paths, a handful of keys
	for _, depth := range []int{6, 24, 40} {
		var sb strings.Builder
		sb.WriteString("defs:\n  l0: &l0 {k0: 1}\n  r0: &r0 {j0: 1}\n")
		for i := 1; i <= depth; i++ {
			fmt.Fprintf(&sb, "  l%d: &l%d {<<: [*l%d, *r%d], k%d: 1}\n  r%d: &r%d {<<: [*l%d, *r%d], j%d: 1}\n", i, i, i-1, i-1, i, i, i, i-1, i-1, i)
		}
		fmt.Fprintf(&sb, "steps:\n  - <<: *l%d\n    command: make\n  - wait\n", depth)
		c13Seeds = append(c13Seeds, sb.String())
	}
}

// hasWSMultiline: some string of the result is multi-line and begins with whitespace
// (the class yaml.v3's emitter cannot round-trip; see finding F07).
func hasWSMultiline(a any) bool {
	m, _ := a.(obj)
	switch m["t"] {
	case "s":
		s, _ := m["v"].(string)
		return strings.ContainsAny(s, "\n\r") && len(s) > 0 && strings.ContainsRune(" \t\n\r", rune(s[0]))
	case "m":
		for _, p := range m["kv"].([]any) {
			pp := p.([]any)
			if hasWSMultiline(pp[1]) || hasWSMultiline(avStr(pp[0].(string))) {
				return true
			}
		}
	case "q":
		for _, x := range m["e"].([]any) {
			if hasWSMultiline(x) {
				return true
			}
		}
	}
	return false
}
