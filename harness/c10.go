package main

import (
	"encoding/json"
	"fmt"
	"math/rand"
	"reflect"
	"strings"

	pipeline "github.com/buildkite/go-pipeline"
	"github.com/buildkite/go-pipeline/ordered"
	"github.com/buildkite/go-pipeline/warning"
)

// C10: the pipeline env block. Each case (block, runtime env, precedence flag,
// name equality) is rendered as a document with a probe step, parsed by the
// real Parse and interpolated by the real Pipeline.Interpolate with a
// recording caller environment.

func c10Event(c obj, kind string) obj {
	mode, _ := c["mode"].(string)
	prefer, _ := c["prefer"].(bool)
	// every fifth case (by its own number) is a pipeline that holds NOTHING but the env block
	bare := false
	if ed, ok := c["edit"].(json.Number); ok {
		bare = (len(fmt.Sprint(c["block"]))+len(ed.String()))%5 == 0
	}
	ev := obj{"c": c, "envkind": kind, "bare": bare}
	p, msg := guarded(func() {
		pairs := [][2]any{}
		blk, _ := c["block"].([]any)
		for _, e := range blk {
			em := e.(map[string]any)
			pairs = append(pairs, [2]any{em["k"], em["v"]})
		}
		probe := ""
		names := strs(c["probe"])
		for _, n := range names {
			probe += "<" + n + "=${" + n + "}>"
		}
		// the step also repeats the block's value strings verbatim: the same text, expanded later, sees the final env
		probe += "|"
		for _, e := range blk {
			probe += e.(map[string]any)["v"].(string) + ";"
		}
		// the same probe text also sits in a top-level setting, written BEFORE the env block: "the rest of the
		// pipeline" is not only the steps
		doc := orderedJSON([][2]any{{"agents", orderedJSON{{"queue", probe}}}, {"env", orderedJSON(pairs)}, {"steps", []any{obj{"command": probe}}},
			{"notify", []any{orderedJSON{{"email", probe}}}}})
		if bare {
			doc = orderedJSON([][2]any{{"env", orderedJSON(pairs)}})
		}
		src := string(asciiJSON(doc))
		pl, err := pipeline.Parse(strings.NewReader(src))
		if err != nil && !warning.Is(err) {
			panic("driver: document does not parse: " + err.Error() + "\n" + src)
		}
		if ed, ok := c["edit"].(json.Number); ok && ed.String() != "0" && pl.Env != nil && pl.Env.Len() > 0 {
			// the SAME block, but arrived at through the map's API: entries that were added and removed again (or
			// displaced by a rename) are not entries of the block - they are not expanded, exported or kept
			type kv = ordered.Tuple[string, string]
			var items []kv
			pl.Env.Range(func(k, v string) error { items = append(items, kv{Key: k, Value: v}); return nil })
			m := ordered.NewMap[string, string](0)
			switch ed.String() {
			case "1": // a removed entry in front (and one more slot than removals: no compaction)
				m.Set("TOMB_HEAD", "tomb-$TOMB_HEAD")
				for _, it := range items {
					m.Set(it.Key, it.Value)
				}
				m.Set("TOMB_TAIL", "tail")
				m.Delete("TOMB_HEAD")
				m.Delete("TOMB_TAIL")
				if m.Len() < 3 {
					m.Set("TOMB_X", "x")
					m.Delete("TOMB_X")
				}
			case "2": // the first entry arrives by a rename onto its own stale twin, which is left behind in front
				m.Set(items[0].Key, "stale-$HOME_DIR")
				m.Set("TOMB_TMP", "tmp")
				for _, it := range items[1:] {
					m.Set(it.Key, it.Value)
				}
				m.Replace("TOMB_TMP", items[0].Key, items[0].Value)
			default: // a removed entry after every second one
				for i, it := range items {
					m.Set(it.Key, it.Value)
					if i%2 == 0 {
						m.Set(fmt.Sprintf("TOMB_%d", i), "${"+it.Key+"}-tomb")
					}
				}
				for i := len(items) - 1; i >= 0; i-- {
					if i%2 == 0 && i > 0 {
						m.Delete(fmt.Sprintf("TOMB_%d", i))
					}
				}
				m.Delete("TOMB_0")
			}
			var back []kv
			m.Range(func(k, v string) error { back = append(back, kv{Key: k, Value: v}); return nil })
			if !reflect.DeepEqual(back, items) {
				panic(fmt.Sprintf("driver: the edited block is not the block: %v vs %v", back, items))
			}
			pl.Env = m
		}
		init := map[string]string{}
		for k, v := range asMap(c["env0"]) {
			init[k], _ = v.(string)
		}
		inner := newCallerEnv(kind, mode, init)
		rec := &recEnv{inner: inner}
		ierr := pl.Interpolate(rec, prefer)
		ev["err"] = ierr != nil
		if ierr != nil {
			ev["errmsg"] = ierr.Error()
		}
		fb := [][2]string{}
		pl.Env.Range(func(k, v string) error { fb = append(fb, [2]string{k, v}); return nil })
		ev["block"] = fb
		// the block is a mapping, whatever it went through: as many entries as Len says, and every entry found under its name
		wf := pl.Env.Len() == len(fb)
		for _, kv := range fb {
			got, ok := pl.Env.Get(kv[0])
			wf = wf && ok && got == kv[1]
		}
		ev["wf"] = wf
		ev["probe"] = ""
		if len(pl.Steps) > 0 {
			if cs, ok := pl.Steps[0].(*pipeline.CommandStep); ok {
				ev["probe"] = cs.Command
			}
		}
		ev["probetop"] = []string{"<missing>", "<missing>"}
		if ierr == nil {
			tb, _ := json.Marshal(pl.RemainingFields)
			var top struct {
				Agents struct{ Queue string } `json:"agents"`
				Notify []struct{ Email string } `json:"notify"`
			}
			if json.Unmarshal(tb, &top) == nil && len(top.Notify) == 1 {
				ev["probetop"] = []string{top.Agents.Queue, top.Notify[0].Email}
			}
		}
		lk := []any{}
		lnames := append([]string{}, names...)
		for _, kv := range fb {
			lnames = append(lnames, kv[0])
		}
		for _, n := range lnames {
			v, ok := inner.Get(n)
			lk = append(lk, []any{n, ok, v})
		}
		ev["lookups"] = lk
		ev["log"] = rec.log
		ev["doc"] = src
	})
	ev["panic"] = p
	if p {
		if strings.HasPrefix(msg, "driver:") {
			fatal("%s", msg)
		}
		ev["panicmsg"] = msg
		ev["err"], ev["block"], ev["probe"], ev["lookups"] = false, []any{}, "", []any{}
		ev["wf"] = false
		ev["probetop"] = []string{"", ""}
	}
	return ev
}

func runC10(args []string) {
	fl := parseFlags(args)
	tw := newTraceWriter(fl.str("out", ""))
	defer tw.close()
	samples := []any{}
	nontrivial := 0
	add := func(ev obj) {
		c := ev["c"].(obj)
		if blk, _ := c["block"].([]any); len(blk) > 0 {
			nontrivial++
		}
		if len(samples) < 3 && tw.n%509 == 13 {
			samples = append(samples, obj{"document": ev["doc"], "mode": c["mode"], "prefer": c["prefer"], "env0": c["env0"],
				"final_block": ev["block"], "probe": ev["probe"], "get_set_log": ev["log"]})
		}
		delete(ev, "doc")
		delete(ev, "log")
		tw.emit(ev)
	}
	kinds := []string{"harness", "internal"}
	if k := fl.str("envkind", ""); k != "" {
		kinds = []string{k}
	}
	if cf := fl.str("cases", ""); cf != "" {
		readNDJSON(cf, func(_ int, c obj) {
			for _, k := range kinds {
				add(c10Event(c, k))
			}
		})
	} else {
		rng := newRand(int64(fl.int("seed", 1)), "c10gen")
		for i, n := 0, fl.int("n", 500); i < n; i++ {
			c := normalize(c10RandomCase(rng))
			for _, k := range kinds {
				add(c10Event(c, k))
			}
		}
	}
	writeSummary(fl.str("summary", ""), obj{"events": tw.n, "nontrivial": nontrivial, "samples": samples})
}

// c10RandomCase: chains of 5-40 entries, forward references, names built by
// expansion, overlaps with the runtime env, both flags, both name equalities.
func c10RandomCase(rng *rand.Rand) obj {
	n := 5 + rng.Intn(36)
	mode := []string{"exact", "upper"}[rng.Intn(2)]
	prefer := rng.Intn(2) == 0
	names := make([]string, n)
	for i := range names {
		names[i] = fmt.Sprintf("V%d", i)
	}
	if rng.Intn(2) == 0 {
		names[rng.Intn(n)] = "a" // the one lower-case name; "A" may be in the runtime env
	}
	runtime := []string{"A", "RT1", "RT2", "HOME_DIR"}
	env0 := obj{}
	for _, r := range runtime {
		if rng.Intn(2) == 0 {
			env0[r] = "R" + strings.ToUpper(r[:1]) + fmt.Sprint(rng.Intn(3))
		}
	}
	for i := 0; i < n; i++ { // overlap: some block names already in the runtime env
		if names[i] != "a" && rng.Intn(5) == 0 {
			env0[names[i]] = fmt.Sprintf("RT-%d", i)
		}
	}
	if rng.Intn(4) == 0 {
		env0["RT1"] = "" // set but empty
	}
	anyVar := func(i int) string {
		switch rng.Intn(4) {
		case 0:
			return runtime[rng.Intn(len(runtime))]
		case 1:
			return names[rng.Intn(n)] // may be a forward reference
		default:
			if i > 0 {
				return names[rng.Intn(i)] // chain through earlier entries
			}
			return runtime[0]
		}
	}
	block := []any{}
	for i := 0; i < n; i++ {
		var ktok []any
		if names[i] != "a" && rng.Intn(4) == 0 {
			// a name built by expansion; the unique prefix keeps expanded names distinct.
			// (only upper-case, identifier-shaped values may flow into names)
			src := []string{"RT2", "HOME_DIR"}[rng.Intn(2)]
			if i > 0 && rng.Intn(2) == 0 {
				src = names[rng.Intn(i)] // defined (or overridden) by an earlier entry of this block
			}
			ktok = []any{tokLit(fmt.Sprintf("N%d_", i)), tokRef(src, "brace")}
		} else {
			ktok = []any{tokLit(names[i])}
		}
		vtok := []any{}
		bareEsc := rng.Intn(6) == 0
		if bareEsc {
			// the ONLY syntax of this value is an escaped dollar that no name follows (`$$5 per build`, `100\$`): it is unescaped
			// like any other - in the block, for the caller, and for the entries that refer to this one
			vtok = [][]any{{tokLit("cost "), tokEsc("5 per build", "dd")}, {tokLit("100"), tokEsc("", "bs")}, {tokEsc("", "dd")},
				{tokLit("a"), tokEsc("-", "dd"), tokLit("b"), tokEsc(" c", "bs")}, {tokEsc("(date)", "dd")}}[rng.Intn(5)]
		}
		for j, m := 0, 1+rng.Intn(4); j < m && !bareEsc; j++ {
			switch rng.Intn(7) {
			case 0:
				vtok = append(vtok, tokLit(randLit(rng)))
			case 1, 2:
				vtok = append(vtok, tokRef(anyVar(i), "brace"))
			case 3:
				vtok = append(vtok, tokEsc(anyVar(i), []string{"dd", "bs"}[rng.Intn(2)]), tokLit(randLit(rng)))
			case 4:
				vtok = append(vtok, tokDflt(anyVar(i), "D"+fmt.Sprint(rng.Intn(3)), []string{"empty", "unset"}[rng.Intn(2)]))
			case 5:
				vtok = append(vtok, tokLit(randLit(rng)), tokRef(anyVar(i), "brace"))
			case 6:
				if rng.Intn(6) == 0 {
					vtok = append(vtok, tokReq(anyVar(i)))
				} else {
					vtok = append(vtok, tokRef(anyVar(i), "brace"))
				}
			}
		}
		block = append(block, obj{"k": spell(ktok), "v": spell(vtok), "ktok": ktok, "vtok": vtok})
	}
	if n >= 2 && rng.Intn(8) == 0 {
		// two entries END under one name (the second one's name comes from a variable that holds the first one's): which of
		// them survives is not stated - but the block stays a mapping with one entry per name
		for _, e := range block {
			if k := e.(obj)["k"].(string); !strings.Contains(k, "$") {
				env0["C10_ALIAS"] = k
				ktok, vtok := []any{tokRef("C10_ALIAS", "brace")}, []any{tokLit("collides")}
				block = append(block, obj{"k": spell(ktok), "v": spell(vtok), "ktok": ktok, "vtok": vtok})
				break
			}
		}
	}
	probe := append([]string{}, runtime...)
	for _, e := range block {
		k := e.(obj)["k"].(string)
		if !strings.Contains(k, "$") {
			probe = append(probe, k)
		}
	}
	return obj{"mode": mode, "prefer": prefer, "block": block, "env0": env0, "probe": probe, "edit": rng.Intn(4)}
}

var _ = rand.Int
