package main

import (
	"context"
	"crypto/ecdsa"
	"crypto/ed25519"
	"crypto/elliptic"
	"crypto/rand"
	"crypto/rsa"
	"crypto"
	"encoding/json"
	"errors"
	"os"
	"path/filepath"
	"strings"

	pipeline "github.com/buildkite/go-pipeline"
	"github.com/buildkite/go-pipeline/jwkutil"
	"github.com/buildkite/go-pipeline/signature"
	"github.com/lestrrat-go/jwx/v2/jwa"
	"github.com/lestrrat-go/jwx/v2/jwk"
)

// C18: key policy. Table rows from TLC (validate / loadkey) plus library-driven
// events (registered algorithm names, NewKeyPair, cross verification).

var c18rsa *rsa.PrivateKey

func c18RawKey(kty string, n int) any {
	switch kty {
	case "RSA":
		if c18rsa == nil {
			k, err := rsa.GenerateKey(rand.Reader, 2048)
			if err != nil {
				fatal("rsa: %v", err)
			}
			c18rsa = k
		}
		return c18rsa
	case "EC":
		crv := elliptic.P521()
		if n%3 == 1 {
			crv = elliptic.P256()
		}
		k, err := ecdsa.GenerateKey(crv, rand.Reader)
		if err != nil {
			fatal("ec: %v", err)
		}
		return k
	case "OKP":
		_, k, err := ed25519.GenerateKey(rand.Reader)
		if err != nil {
			fatal("ed: %v", err)
		}
		return k
	case "oct":
		b := make([]byte, 64)
		rand.Read(b)
		return b
	}
	fatal("bad kty %s", kty)
	return nil
}

var c18Invalid = map[string]string{
	"RSA": `{"kty":"RSA","n":"","e":"AQAB"}`,
	"EC":  `{"kty":"EC","crv":"P-521","x":"AQ","y":"AQ"}`, // (members present: a key-set file holding it still parses; coordinates of the wrong length)
	"OKP": `{"kty":"OKP","crv":"Ed25519","x":""}`,
	"oct": `{"kty":"oct","k":""}`,
}

func c18Key(k obj, n int) jwk.Key {
	kty, _ := k["kty"].(string)
	alg, _ := k["alg"].(string)
	valid, _ := k["valid"].(bool)
	private, _ := k["private"].(bool)
	var key jwk.Key
	var err error
	if valid {
		key, err = jwk.FromRaw(c18RawKey(kty, n))
		if err != nil {
			fatal("FromRaw: %v", err)
		}
		if !private {
			key, err = jwk.PublicKeyOf(key)
			if err != nil {
				fatal("PublicKeyOf: %v", err)
			}
		}
		if e := key.Validate(); e != nil {
			fatal("harness: a key meant to be structurally valid is not: %v", e)
		}
	} else {
		key = nil
		if private && kty != "oct" && (n%3 != 0 || kty == "OKP") {
			// a PRIVATE key whose public members are intact and whose private member is the broken one: `d` empty,
			// or (EC) shorter than the curve's size
			good, err := jwk.FromRaw(c18RawKey(kty, n))
			if err != nil {
				fatal("FromRaw: %v", err)
			}
			b, _ := json.Marshal(good)
			var members map[string]any
			json.Unmarshal(b, &members)
			d, _ := members["d"].(string)
			if n%3 == 1 || kty != "EC" || len(d) < 8 {
				members["d"] = ""
			} else {
				members["d"] = d[:len(d)-6]
			}
			b, _ = json.Marshal(members)
			if k2, err := jwk.ParseKey(b); err == nil && k2.Validate() != nil {
				key = k2
			}
		}
		if key == nil {
			key, err = jwk.ParseKey([]byte(c18Invalid[kty]))
			if err != nil {
				fatal("harness: cannot build structurally invalid %s key: %v", kty, err)
			}
		}
		if key.Validate() == nil {
			fatal("harness: a key meant to be structurally invalid validates (%s)", kty)
		}
	}
	if alg != "<none>" {
		if err := key.Set(jwk.AlgorithmKey, alg); err != nil {
			fatal("set alg %q: %v", alg, err)
		}
	}
	if kid, _ := k["kid"].(string); kid != "" {
		key.Set(jwk.KeyIDKey, kid)
	}
	return key
}

// c18Mix scatters a case number: TLC enumerates cases in a regular order, and a choice made by `n % k` would
// always meet the same column of the table.
func c18Mix(n int) int { return int((uint32(n) * 2654435761) >> 12) }

func c18ErrClass(err error) string {
	switch {
	case err == nil:
		return "ok"
	case errors.Is(err, jwkutil.ErrKeyMissingAlg):
		return "missing_alg"
	case errors.Is(err, jwkutil.ErrInvalidSigningAlgorithm):
		return "not_a_signature_alg"
	case errors.Is(err, jwkutil.ErrUnsupportedSigningAlgorithmForKeyType):
		return "alg_kty_mismatch"
	case errors.Is(err, jwkutil.ErrUnsupportedSigningAlgorithm):
		return "unsupported_alg"
	case errors.Is(err, jwkutil.ErrUnsupportedKeyType):
		return "unsupported_kty"
	}
	return "invalid_key"
}

func runC18(args []string) {
	fl := parseFlags(args)
	tw := newTraceWriter(fl.str("out", ""))
	defer tw.close()
	samples := []any{}
	tmp, err := os.MkdirTemp("", "c18")
	if err != nil {
		fatal("tmp: %v", err)
	}
	defer os.RemoveAll(tmp)
	nacc := 0
	if cf := fl.str("cases", ""); cf != "" {
		readNDJSON(cf, func(n int, c obj) {
			if r, ok := c["rot"].(json.Number); ok {
				r64, _ := r.Int64()
				n = int(r64)
			}
			ev := obj{"c": c, "kind": c["table"]}
			switch c["table"] {
			case "validate":
				key := c18Key(c["key"].(map[string]any), c18Mix(n))
				p, msg := guarded(func() {
					err := jwkutil.Validate(key)
					ev["accepted"] = err == nil
					ev["class"] = c18ErrClass(err)
				})
				ev["panic"] = p
				if p {
					ev["panicmsg"], ev["accepted"], ev["class"] = msg, false, "panic"
				}
				if ev["accepted"] == true {
					nacc++
				}
			case "loadkey":
				setl, _ := c["set"].([]any)
				set := jwk.NewSet()
				var keys []jwk.Key
				for i, k := range setl {
					key := c18Key(k.(map[string]any), c18Mix(n*7+i))
					keys = append(keys, key)
					if c18Mix(n)%4 == 3 {
						// private members (RFC 7517 allows any): a two-key file of several KiB is still a small key set
						if err := key.Set("x-note", strings.Repeat("padding ", 640)); err != nil {
							fatal("pad: %v", err)
						}
					}
					if err := set.AddKey(key); err != nil {
						fatal("AddKey: %v", err)
					}
				}
				b, err := json.Marshal(set)
				if err != nil {
					fatal("marshal set: %v", err)
				}
				req, _ := c["req"].(string)
				if req == "" && c18Mix(n*3+1)%3 == 0 {
					// the file also lists an entry that is NOT a key (an EC key without coordinates / an unknown key type): whatever
					// a loader makes of such an entry, a request that names no key cannot be answered from this file - it holds
					// more than one entry, or nothing that is a key
					var file struct {
						Keys []json.RawMessage `json:"keys"`
					}
					if err := json.Unmarshal(b, &file); err != nil {
						fatal("re-reading the set: %v", err)
					}
					junk := json.RawMessage([]string{`{"kty":"EC","crv":"P-521","kid":"junk"}`, `{"kty":"XYZ","kid":"junk"}`, `{"kty":"EC","crv":"P-521"}`}[c18Mix(n*5+2)%3])
					if c18Mix(n*11+3)%2 == 0 {
						file.Keys = append([]json.RawMessage{junk}, file.Keys...)
					} else {
						file.Keys = append(file.Keys, junk)
					}
					if b, err = json.Marshal(file); err != nil {
						fatal("marshal set: %v", err)
					}
					ev["junk"] = true
				}
				path := filepath.Join(tmp, "set.json")
				if err := os.WriteFile(path, b, 0o600); err != nil {
					fatal("write: %v", err)
				}
				p, msg := guarded(func() {
					got, err := jwkutil.LoadKey(path, req)
					ev["ok"] = err == nil
					ev["idx"] = 0
					if err != nil {
						ev["err"] = err.Error()
						return
					}
					gt, _ := got.Thumbprint(crypto.SHA256)
					for i, k := range keys {
						kt, _ := k.Thumbprint(crypto.SHA256)
						if string(kt) == string(gt) {
							ev["idx"] = i + 1
						}
					}
				})
				ev["panic"] = p
				if p {
					ev["panicmsg"], ev["ok"], ev["idx"] = msg, false, 0
				}
			default:
				fatal("bad table %v", c["table"])
			}
			if len(samples) < 4 && n%401 == 3 {
				samples = append(samples, ev)
			}
			tw.emit(ev)
		})
	}
	if fl.str("lib", "") == "1" {
		// the registered algorithm names
		sig, enc := []string{}, []string{}
		for _, a := range jwa.SignatureAlgorithms() {
			sig = append(sig, a.String())
		}
		for _, a := range jwa.KeyEncryptionAlgorithms() {
			enc = append(enc, a.String())
		}
		tw.emit(obj{"kind": "algs", "sig": sig, "enc": enc, "panic": false})
		// NewKeyPair for every signature algorithm
		type pair struct {
			alg       string
			priv, pub jwk.Set
		}
		var pairs []pair
		for _, a := range jwa.SignatureAlgorithms() {
			for rep := 0; rep < 8; rep++ {
				ev := obj{"kind": "newkeypair", "alg": a.String()}
				// (from the third run on: a pair generated WITHOUT a key id - what the only-key path of LoadKey is for; several
				// runs, as attributes are set in map order)
				kid := "kid-" + a.String()
				if rep >= 2 {
					kid = ""
				}
				ev["kid"] = kid
				p, msg := guarded(func() {
					priv, pub, err := jwkutil.NewKeyPair(kid, a)
					ev["generated"] = err == nil
					ev["privvalid"], ev["pubvalid"] = false, false
					if err != nil {
						return
					}
					pk, _ := priv.Key(0)
					uk, _ := pub.Key(0)
					ev["privvalid"] = jwkutil.Validate(pk) == nil
					ev["pubvalid"] = jwkutil.Validate(uk) == nil
					if ev["privvalid"] == true && ev["pubvalid"] == true && rep < 2 {
						pairs = append(pairs, pair{a.String(), priv, pub})
					}
				})
				ev["panic"] = p
				if p {
					ev["panicmsg"], ev["generated"], ev["privvalid"], ev["pubvalid"] = msg, false, false, false
				}
				tw.emit(ev)
			}
		}
		// what one private key signs verifies with its public half and with no other generated key
		step := &signature.CommandStepWithInvariants{
			CommandStep:   pipeline.CommandStep{Command: "echo hello", Env: map[string]string{"A": "1"}},
			RepositoryURL: "https://example.com/repo.git",
		}
		ctx := context.Background()
		for i, pi := range pairs {
			pk, _ := pi.priv.Key(0)
			var sg *pipeline.Signature
			var serr error
			p, msg := guarded(func() { sg, serr = signature.Sign(ctx, pk, step) })
			for j, pj := range pairs {
				ev := obj{"kind": "cross", "i": i + 1, "j": j + 1, "algi": pi.alg, "algj": pj.alg, "signed": !p && serr == nil, "verified": false, "panic": p}
				if p {
					ev["panicmsg"] = msg
				} else if serr == nil {
					p2, msg2 := guarded(func() { ev["verified"] = signature.Verify(ctx, sg, pj.pub, step) == nil })
					if p2 {
						ev["panic"], ev["panicmsg"] = true, msg2
					}
				}
				tw.emit(ev)
			}
		}
		samples = append(samples, obj{"generated_pairs": len(pairs)})
	}
	writeSummary(fl.str("summary", ""), obj{"events": tw.n, "accepted": nacc, "samples": samples})
}
