package main

import (
	"fmt"
	"math"
	"math/rand"
	"strconv"
	"strings"
	"time"

	"gopkg.in/yaml.v3"
)

// YAML rendering of generated documents in seeded styles (block / flow, quoting
// variants, null spellings, anchors + aliases + `<<` merges introduced by
// factoring), and the harness's own projection YAML text -> AV (plain yaml.v3
// nodes; deliberately not ordered.DecodeYAML, which is code under test).

type yamlStyle struct {
	rng    *rand.Rand
	flow   int  // 0 block, 1 flow everywhere, 2 mixed
	quote  int  // 0 library default, 1 double-quote all strings, 2 mixed
	factor bool // introduce anchors / aliases / merges
	plainKeys bool // write some numeric / boolean looking keys as plain scalars in non-canonical spellings
}

func (st *yamlStyle) strNode(s string) *yaml.Node {
	n := &yaml.Node{Kind: yaml.ScalarNode, Tag: "!!str", Value: s}
	switch {
	case st.quote == 1, st.quote == 2 && st.rng.Intn(3) == 0:
		n.Style = yaml.DoubleQuotedStyle
	case st.quote == 2 && st.rng.Intn(4) == 0:
		n.Style = yaml.SingleQuotedStyle
	}
	return n
}

// keyNode: a mapping key. The keys "12" and "true" are sometimes written as PLAIN scalars in a non-canonical spelling
// (0xc, 0o14, +12; True): YAML reads those as the integer 12 / the boolean true, whose key form is "12" / "true".
func (st *yamlStyle) keyNode(k string) *yaml.Node {
	if st.plainKeys && st.rng.Intn(2) == 0 {
		switch k {
		case "12":
			return &yaml.Node{Kind: yaml.ScalarNode, Tag: "!!int", Value: []string{"0xc", "0o14", "+12", "1_2", "12"}[st.rng.Intn(5)]}
		case "true":
			return &yaml.Node{Kind: yaml.ScalarNode, Tag: "!!bool", Value: []string{"True", "TRUE", "true"}[st.rng.Intn(3)]}
		case "8": // (a leading zero is the old octal notation, which yaml.v3 still reads)
			return &yaml.Node{Kind: yaml.ScalarNode, Tag: "!!int", Value: []string{"010", "0o10", "0x8", "+8", "8", "0b1000"}[st.rng.Intn(6)]}
		case "7":
			return &yaml.Node{Kind: yaml.ScalarNode, Tag: "!!int", Value: []string{"007", "0o7", "7", "0b111", "07"}[st.rng.Intn(5)]}
		}
		if f, err := strconv.ParseFloat(k, 64); err == nil && strings.Contains(k, "e") && strconv.FormatFloat(f, 'e', -1, 64) == k {
			// the key is the canonical string of a float: written as a plain float in some other spelling
			sp := []string{strconv.FormatFloat(f, 'g', -1, 64), strconv.FormatFloat(f, 'e', -1, 64), strings.ToUpper(strconv.FormatFloat(f, 'e', -1, 64))}
			if math.Abs(f) < 1e15 && math.Abs(f) > 1e-9 {
				sp = append(sp, strconv.FormatFloat(f, 'f', -1, 64), strconv.FormatFloat(f, 'f', -1, 64)+"0")
			}
			v := sp[st.rng.Intn(len(sp))]
			if f > 0 && st.rng.Intn(3) == 0 {
				v = "+" + v
			}
			n := &yaml.Node{Kind: yaml.ScalarNode, Tag: "!!float", Value: v}
			var back any
			if n.Decode(&back) == nil {
				if bf, ok := back.(float64); ok && bf == f {
					return n
				}
			}
		}
	}
	return st.strNode(k)
}

func (st *yamlStyle) node(d any) *yaml.Node {
	switch x := d.(type) {
	case orderedJSON:
		n := &yaml.Node{Kind: yaml.MappingNode, Tag: "!!map"}
		if st.flow == 1 || (st.flow == 2 && st.rng.Intn(3) == 0) {
			n.Style = yaml.FlowStyle
		}
		for _, p := range x {
			n.Content = append(n.Content, st.keyNode(p[0].(string)), st.node(p[1]))
		}
		return n
	case []any:
		n := &yaml.Node{Kind: yaml.SequenceNode, Tag: "!!seq"}
		if st.flow == 1 || (st.flow == 2 && st.rng.Intn(3) == 0) {
			n.Style = yaml.FlowStyle
		}
		for _, v := range x {
			n.Content = append(n.Content, st.node(v))
		}
		return n
	case string:
		return st.strNode(x)
	case nil:
		return &yaml.Node{Kind: yaml.ScalarNode, Tag: "!!null", Value: []string{"null", "~", "null"}[st.rng.Intn(3)]}
	case bool:
		return &yaml.Node{Kind: yaml.ScalarNode, Tag: "!!bool", Value: strconv.FormatBool(x)}
	case int:
		return &yaml.Node{Kind: yaml.ScalarNode, Tag: "!!int", Value: strconv.Itoa(x)}
	case uint64:
		return &yaml.Node{Kind: yaml.ScalarNode, Tag: "!!int", Value: strconv.FormatUint(x, 10)}
	case float64:
		return &yaml.Node{Kind: yaml.ScalarNode, Tag: "!!float", Value: strconv.FormatFloat(x, 'g', -1, 64)}
	}
	panic(fmt.Sprintf("yaml node: %T", d))
}

// factorDoc rewrites a document (a top-level mapping) so that some free-form
// mappings are written with a `<<` merge of an anchored base and some subtrees
// are repeated through aliases. It returns the node tree and the document the
// text DENOTES (the AV a correct decoder must produce): the bases are listed
// under a new first top-level key "x-anchors".
func (st *yamlStyle) factorDoc(doc orderedJSON) (*yaml.Node, any) {
	root := st.node(doc)
	bases := &yaml.Node{Kind: yaml.SequenceNode, Tag: "!!seq"}
	denoted := []any{}
	count := 0
	var walk func(n *yaml.Node, d any, free bool)
	walk = func(n *yaml.Node, d any, free bool) {
		switch x := d.(type) {
		case orderedJSON:
			for i, p := range x {
				k := p[0].(string)
				child := n.Content[2*i+1]
				// free-form positions: anything below a step's unknown keys / top-level extras
				childFree := free || !(k == "steps" || k == "env" || k == "plugins" || k == "matrix" || k == "cache" || k == "signature" ||
					k == "command" || k == "commands" || k == "key" || k == "label" || k == "name" || k == "id" || k == "identifier" || k == "group")
				if m, ok := p[1].(orderedJSON); ok && childFree && len(m) >= 2 && count < 4 && st.rng.Intn(2) == 0 {
					// split: the first j keys come from an anchored base through a merge
					j := 1 + st.rng.Intn(len(m)-1)
					count++
					name := fmt.Sprintf("b%d", count)
					base := &yaml.Node{Kind: yaml.MappingNode, Tag: "!!map", Anchor: name}
					if st.rng.Intn(3) == 0 {
						// ... or the LAST keys do, the merge key written behind the explicit ones; the base also carries one
						// of the explicit keys (under its canonical spelling, whatever spelling the mapping itself uses):
						// the explicit value stays, the merged keys stand at the end
						base.Content = append(base.Content, child.Content[2*j:]...)
						baseDen := append(orderedJSON{}, m[j:]...)
						o := st.rng.Intn(j)
						ov := fmt.Sprintf("overridden-%d", count)
						pos := st.rng.Intn(len(m) - j + 1)
						rest := append([]*yaml.Node{st.strNode(m[o][0].(string)), st.strNode(ov)}, base.Content[2*pos:]...)
						base.Content = append(base.Content[:2*pos:2*pos], rest...)
						baseDen = append(baseDen[:pos:pos], append(orderedJSON{{m[o][0], ov}}, baseDen[pos:]...)...)
						bases.Content = append(bases.Content, base)
						denoted = append(denoted, baseDen)
						merged := &yaml.Node{Kind: yaml.MappingNode, Tag: "!!map", Style: child.Style}
						merged.Content = append(merged.Content, child.Content[:2*j]...)
						merged.Content = append(merged.Content,
							&yaml.Node{Kind: yaml.ScalarNode, Tag: "!!merge", Value: "<<"},
							&yaml.Node{Kind: yaml.AliasNode, Alias: base, Value: name})
						n.Content[2*i+1] = merged
						continue
					}
					base.Content = append(base.Content, child.Content[:2*j]...)
					baseDen := append(orderedJSON{}, m[:j]...)
					if st.rng.Intn(2) == 0 {
						// the base also carries a key that the mapping sets explicitly further down:
						// the explicit key wins and stands where IT is written
						o := j + st.rng.Intn(len(m)-j)
						ov := fmt.Sprintf("overridden-%d", count)
						pos := st.rng.Intn(j + 1)
						knode, vnode := st.strNode(m[o][0].(string)), st.strNode(ov)
						rest := append([]*yaml.Node{knode, vnode}, base.Content[2*pos:]...)
						base.Content = append(base.Content[:2*pos:2*pos], rest...)
						baseDen = append(baseDen[:pos:pos], append(orderedJSON{{m[o][0], ov}}, baseDen[pos:]...)...)
					}
					if st.rng.Intn(3) == 0 {
						// a CHAIN of merges: the base itself starts with a merge of an inner base that holds a stale value for one
						// of the base's own keys - written after its `<<`, the base's own value wins, also for whoever merges the base
						t := st.rng.Intn(j)
						inner := &yaml.Node{Kind: yaml.MappingNode, Tag: "!!map", Anchor: name + "i"}
						inner.Content = append(inner.Content, st.strNode(m[t][0].(string)), st.strNode(fmt.Sprintf("stale-%d", count)))
						bases.Content = append(bases.Content, inner)
						denoted = append(denoted, orderedJSON{{m[t][0], fmt.Sprintf("stale-%d", count)}})
						base.Content = append([]*yaml.Node{{Kind: yaml.ScalarNode, Tag: "!!merge", Value: "<<"}, {Kind: yaml.AliasNode, Alias: inner, Value: name + "i"}}, base.Content...)
					}
					bases.Content = append(bases.Content, base)
					denoted = append(denoted, baseDen)
					merged := &yaml.Node{Kind: yaml.MappingNode, Tag: "!!map", Style: child.Style}
					merged.Content = append(merged.Content,
						&yaml.Node{Kind: yaml.ScalarNode, Tag: "!!merge", Value: "<<"},
						&yaml.Node{Kind: yaml.AliasNode, Alias: base, Value: name})
					merged.Content = append(merged.Content, child.Content[2*j:]...)
					n.Content[2*i+1] = merged
					continue
				}
				walk(child, p[1], childFree)
			}
		case []any:
			for i, v := range x {
				walk(n.Content[i], v, free)
			}
		}
	}
	walk(root, doc, false)
	if len(doc) >= 2 && st.rng.Intn(2) == 0 {
		// the TOP-LEVEL mapping itself takes its first j keys (steps, env, ... whatever comes first) from an anchored
		// base through a merge - `<<: *defaults` at the top of a pipeline file
		j := 1 + st.rng.Intn(len(doc)-1)
		count++
		base := &yaml.Node{Kind: yaml.MappingNode, Tag: "!!map", Anchor: "b0"}
		base.Content = append(base.Content, root.Content[:2*j]...)
		baseDen := append(orderedJSON{}, doc[:j]...)
		if st.rng.Intn(2) == 0 {
			o := j + st.rng.Intn(len(doc)-j)
			pos := st.rng.Intn(j + 1)
			knode, vnode := st.strNode(doc[o][0].(string)), st.strNode("overridden-0")
			rest := append([]*yaml.Node{knode, vnode}, base.Content[2*pos:]...)
			base.Content = append(base.Content[:2*pos:2*pos], rest...)
			baseDen = append(baseDen[:pos:pos], append(orderedJSON{{doc[o][0], "overridden-0"}}, baseDen[pos:]...)...)
		}
		bases.Content = append(bases.Content, base)
		denoted = append(denoted, baseDen)
		merged := &yaml.Node{Kind: yaml.MappingNode, Tag: "!!map", Style: root.Style}
		merged.Content = append(merged.Content,
			&yaml.Node{Kind: yaml.ScalarNode, Tag: "!!merge", Value: "<<"},
			&yaml.Node{Kind: yaml.AliasNode, Alias: base, Value: "b0"})
		merged.Content = append(merged.Content, root.Content[2*j:]...)
		root = merged
	}
	if count == 0 {
		return root, doc
	}
	out := &yaml.Node{Kind: yaml.MappingNode, Tag: "!!map"}
	out.Content = append(out.Content, st.strNode("x-anchors"), bases)
	out.Content = append(out.Content, root.Content...)
	newDoc := append(orderedJSON{{"x-anchors", denoted}}, doc...)
	return out, newDoc
}

// repeatAnchors makes some free-form subtrees occur twice - once written out under an anchor, once more
// as an alias under a new key right behind it - and gives EVERY such anchor the same name: YAML lets an
// anchor name be redefined, and an alias refers to the most recent definition before it. Returns how
// many subtrees were repeated.
func (st *yamlStyle) repeatAnchors(root *yaml.Node) int {
	count := 0
	var walk func(n *yaml.Node, free bool)
	walk = func(n *yaml.Node, free bool) {
		switch n.Kind {
		case yaml.MappingNode:
			have := map[string]bool{}
			for i := 0; i+1 < len(n.Content); i += 2 {
				have[n.Content[i].Value] = true
			}
			out := make([]*yaml.Node, 0, len(n.Content))
			for i := 0; i+1 < len(n.Content); i += 2 {
				k, v := n.Content[i], n.Content[i+1]
				out = append(out, k, v)
				key := k.Value
				childFree := free || !(key == "steps" || key == "env" || key == "plugins" || key == "matrix" || key == "cache" || key == "signature" ||
					key == "command" || key == "commands" || key == "key" || key == "label" || key == "name" || key == "id" || key == "identifier" || key == "group" ||
					key == "x-anchors")
				container := (v.Kind == yaml.MappingNode || v.Kind == yaml.SequenceNode) && len(v.Content) > 0
				if k.Tag != "!!merge" && key != "plugins" && key != "signature" && childFree && container && v.Anchor == "" && count < 3 && !have[key+"_again"] && st.rng.Intn(3) == 0 {
					count++
					v.Anchor = "r"
					out = append(out, st.strNode(key+"_again"), &yaml.Node{Kind: yaml.AliasNode, Alias: v, Value: "r"})
					continue // nothing inside v is anchored: the alias behind it must mean v
				}
				switch key {
				case "signature":
					// (a typed record without room for extra keys)
				case "plugins":
					// the keys right below are plugin SOURCES: nothing is added next to them, only inside the configs
					items := []*yaml.Node{v}
					if v.Kind == yaml.SequenceNode {
						items = v.Content
					}
					for _, it := range items {
						if it.Kind == yaml.MappingNode {
							for j := 1; j < len(it.Content); j += 2 {
								walk(it.Content[j], true)
							}
						}
					}
				default:
					walk(v, childFree)
				}
			}
			n.Content = out
		case yaml.SequenceNode:
			for _, c := range n.Content {
				walk(c, free)
			}
		}
	}
	walk(root, false)
	return count
}

// renderYAML returns the YAML text of the document in the style and the
// document that text denotes.
func renderYAML(doc any, st *yamlStyle) (string, any) {
	var n *yaml.Node
	denotes := doc
	if m, ok := doc.(orderedJSON); ok && st.factor {
		n, denotes = st.factorDoc(m)
		if st.rng.Intn(2) == 0 && st.repeatAnchors(n) > 0 {
			// what the node graph denotes, read by the harness's own walker (aliases by pointer, its own merge rules)
			saved := avExotic
			a, err := avFromNode(n, 0)
			avExotic = saved
			if err != nil {
				fatal("harness: cannot read back the factored node graph: %v", err)
			}
			denotes = docFromAV(a)
		}
	} else {
		n = st.node(doc)
	}
	b, err := yaml.Marshal(n)
	if err != nil {
		fatal("harness: yaml.v3 cannot emit the generated document: %v", err)
	}
	return string(b), denotes
}

// avFromYAML projects YAML text to AV using plain yaml.v3 nodes. Aliases and
// merges are resolved by yaml.v3's own Decode on sub-nodes only for scalars;
// mappings are walked in document order.
func avFromYAML(text []byte) (any, error) {
	var n yaml.Node
	if err := yaml.Unmarshal(text, &n); err != nil {
		return nil, err
	}
	if n.Kind == 0 {
		return obj{"t": "z"}, nil
	}
	return avFromNode(&n, 0)
}

// avKeyText: the harness's own reading of what a mapping key denotes: a string key as written, an integer key in
// decimal, a boolean key as true / false (other kinds: the raw text).
func avKeyText(key *yaml.Node) string {
	if key.Kind == yaml.ScalarNode && key.Tag != "!!str" && key.Tag != "" {
		var kx any
		if key.Decode(&kx) == nil {
			switch t := kx.(type) {
			case int:
				return strconv.Itoa(t)
			case int64:
				return strconv.FormatInt(t, 10)
			case uint64:
				return strconv.FormatUint(t, 10)
			case bool:
				return strconv.FormatBool(t)
			case float64:
				// distinct floats are distinct keys: scientific notation with as many digits as the value needs
				return strconv.FormatFloat(t, 'e', -1, 64)
			}
		}
	}
	return key.Value
}

func avFromNode(n *yaml.Node, depth int) (any, error) {
	if depth > 200 {
		return nil, fmt.Errorf("too deep")
	}
	switch n.Kind {
	case yaml.DocumentNode:
		if len(n.Content) == 0 {
			return obj{"t": "z"}, nil
		}
		return avFromNode(n.Content[0], depth+1)
	case yaml.AliasNode:
		return avFromNode(n.Alias, depth+1)
	case yaml.SequenceNode:
		e := []any{}
		for _, c := range n.Content {
			v, err := avFromNode(c, depth+1)
			if err != nil {
				return nil, err
			}
			e = append(e, v)
		}
		return obj{"t": "q", "e": e}, nil
	case yaml.MappingNode:
		// YAML merge rules, implemented independently of the code under test: explicit
		// keys beat merged ones, earlier merge sources beat later ones, merged pairs stand
		// where the merge key stands.
		explicit := map[string]bool{}
		for i := 0; i+1 < len(n.Content); i += 2 {
			if k := n.Content[i]; k.Tag != "!!merge" {
				for k.Kind == yaml.AliasNode {
					k = k.Alias
				}
				explicit[avKeyText(k)] = true
			}
		}
		have := map[string]bool{}
		kv := []any{}
		for i := 0; i+1 < len(n.Content); i += 2 {
			k, v := n.Content[i], n.Content[i+1]
			if k.Tag == "!!merge" {
				srcs := []*yaml.Node{v}
				if v.Kind == yaml.SequenceNode {
					srcs = v.Content
				}
				for _, s := range srcs {
					for s.Kind == yaml.AliasNode {
						s = s.Alias
					}
					mv, err := avFromNode(s, depth+1)
					if err != nil {
						return nil, err
					}
					if mm, ok := mv.(obj); ok && mm["t"] == "m" {
						for _, p := range mm["kv"].([]any) {
							pk := p.([]any)[0].(string)
							if !explicit[pk] && !have[pk] {
								have[pk] = true
								kv = append(kv, p)
							}
						}
					}
				}
				continue
			}
			key := k
			for key.Kind == yaml.AliasNode {
				key = key.Alias
			}
			keyText := avKeyText(key)
			if key.Kind != yaml.ScalarNode || (key.Tag != "!!str" && key.Tag != "") {
				avExotic = true // non-string keys are canonicalised by the decoder (0x1f -> "31"): not "as written"
			}
			vv, err := avFromNode(v, depth+1)
			if err != nil {
				return nil, err
			}
			kv = append(kv, []any{keyText, vv})
		}
		return obj{"t": "m", "kv": kv}, nil
	case yaml.ScalarNode:
		switch n.Tag {
		case "!!str", "!!int", "!!float", "!!bool", "!!null", "":
		default:
			avExotic = true
		}
		var x any
		if err := n.Decode(&x); err != nil {
			return nil, err
		}
		switch t := x.(type) {
		case nil:
			return obj{"t": "z"}, nil
		case string:
			return avStr(t), nil
		case bool:
			return obj{"t": "b", "v": t}, nil
		case int:
			return obj{"t": "n", "v": strconv.Itoa(t)}, nil
		case int64:
			return obj{"t": "n", "v": strconv.FormatInt(t, 10)}, nil
		case uint64:
			return obj{"t": "n", "v": strconv.FormatUint(t, 10)}, nil
		case float64:
			if math.IsInf(t, 0) || math.IsNaN(t) {
				return obj{"t": "n", "v": fmt.Sprint(t)}, nil // "+Inf" "-Inf" "NaN"
			}
			return obj{"t": "n", "v": canonNum(t)}, nil
		case time.Time:
			avExotic = true
			b, _ := t.MarshalJSON() // what encoding/json makes of it
			return avStr(strings.Trim(string(b), "\"")), nil
		default:
			avExotic = true
			return avStr(fmt.Sprint(t)), nil
		}
	}
	return nil, fmt.Errorf("unexpected node kind %d", n.Kind)
}
