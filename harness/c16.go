package main

import (
	"encoding/json"
	"fmt"
	"math/rand"
	"os"
	"reflect"
	"sort"
	"strconv"
	"strings"

	"github.com/buildkite/go-pipeline/ordered"
	"gopkg.in/yaml.v3"
)

// C16: the reflective unmarshaler. A case is (struct descriptor, document,
// pre-filled?). The struct type is built with reflect.StructOf from the
// descriptor exported by the specification, the document becomes the generic
// tree ordered.DecodeYAML would produce, and ordered.Unmarshal fills the
// destination; yaml.v3 decodes the same document (as JSON text) for reference.

type c16Sub struct {
	X string `yaml:"x"`
	Y int    `yaml:"y"`
}
type c16Inl struct {
	P string `yaml:"p"`
	Q int    `yaml:"q"`
}

type c16Inl2 struct {
	IName  string         `yaml:"name"`
	ICount int            `yaml:"n"`
	IRest  map[string]any `yaml:",inline"`
}

type c16Key string

var c16Types = map[string]reflect.Type{
	"map_nss": reflect.TypeOf(map[c16Key]string(nil)),
	"struct:inl2": reflect.TypeOf(c16Inl2{}),
	"string": reflect.TypeOf(""), "int": reflect.TypeOf(0), "bool": reflect.TypeOf(false), "float": reflect.TypeOf(0.0),
	"any": reflect.TypeOf((*any)(nil)).Elem(), "slice_string": reflect.TypeOf([]string(nil)), "slice_any": reflect.TypeOf([]any(nil)),
	"map_ss": reflect.TypeOf(map[string]string(nil)), "map_sa": reflect.TypeOf(map[string]any(nil)),
	"struct:sub": reflect.TypeOf(c16Sub{}), "ptr:sub": reflect.TypeOf(&c16Sub{}), "struct:inl": reflect.TypeOf(c16Inl{}),
	"inline_map": reflect.TypeOf(map[string]any(nil)), "slice_struct:sub": reflect.TypeOf([]c16Sub(nil)),
}

// how the tag is written for a field (the key is the same either way)
// (Flag and Ratio carry the SAME key-less tag text `yaml:",omitempty"`: their keys still come from their own names)
var c16TagForm = map[string]string{"Flag": "flagonly", "Ratio": "flagonly", "Count": "omitempty", "Items": "untagged"}

func c16StructType(desc []any, rot int64) reflect.Type {
	fields := []reflect.StructField{}
	for _, d := range desc {
		dm := d.(map[string]any)
		name, _ := dm["name"].(string)
		key, _ := dm["key"].(string)
		typ, ok := c16Types[dm["type"].(string)]
		if !ok {
			fatal("c16: unknown type %v", dm["type"])
		}
		var tag string
		switch dm["role"] {
		case "skip":
			tag = `yaml:"-"`
		case "inline":
			// the inline flag is a flag like any other: alone, or next to further flags in either order
			tag = []string{`yaml:",inline"`, `yaml:",inline,omitempty"`, `yaml:",omitempty,inline"`, `yaml:",inline"`}[rot%4]
		default:
			switch c16TagForm[name] {
			case "untagged":
				if strings.ToLower(name) != key {
					fatal("c16: untagged field %s has key %s", name, key)
				}
				tag = ""
			case "flagonly":
				tag = `yaml:",omitempty"`
			case "omitempty":
				tag = fmt.Sprintf(`yaml:"%s,omitempty"`, key)
			default:
				tag = fmt.Sprintf(`yaml:"%s"`, key)
			}
			al := strs(dm["aliases"])
			if len(al) > 0 {
				tag += fmt.Sprintf(` aliases:"%s"`, strings.Join(al, ","))
			}
			tag = strings.TrimSpace(tag)
		}
		fields = append(fields, reflect.StructField{Name: name, Type: typ, Tag: reflect.StructTag(tag)})
	}
	return reflect.StructOf(fields)
}

// avToGeneric: AV -> what ordered.DecodeYAML produces (int, float64, string, bool, nil, []any, *ordered.MapSA)
func avToGeneric(a any) any {
	m := a.(map[string]any)
	switch m["t"] {
	case "s":
		return m["v"].(string)
	case "n":
		s := m["v"].(string)
		if i, err := strconv.Atoi(s); err == nil {
			return i
		}
		f, _ := strconv.ParseFloat(s, 64)
		return f
	case "b":
		return m["v"].(bool)
	case "z":
		return nil
	case "q":
		l, _ := m["e"].([]any)
		out := make([]any, 0, len(l))
		for _, x := range l {
			out = append(out, avToGeneric(x))
		}
		return out
	case "m":
		om := ordered.NewMap[string, any](0)
		kv, _ := m["kv"].([]any)
		for _, p := range kv {
			pp := p.([]any)
			om.Set(pp[0].(string), avToGeneric(pp[1]))
		}
		return om
	}
	fatal("avToGeneric: %v", a)
	return nil
}

// avToJSONable: AV -> orderedJSON tree (for the yaml.v3 reference decoding)
func avToJSONable(a any) any {
	m := a.(map[string]any)
	switch m["t"] {
	case "s":
		return m["v"]
	case "n":
		return json.Number(m["v"].(string))
	case "b":
		return m["v"]
	case "z":
		return nil
	case "q":
		l, _ := m["e"].([]any)
		out := make([]any, 0, len(l))
		for _, x := range l {
			out = append(out, avToJSONable(x))
		}
		return out
	case "m":
		kv, _ := m["kv"].([]any)
		out := [][2]any{}
		for _, p := range kv {
			pp := p.([]any)
			out = append(out, [2]any{pp[0], avToJSONable(pp[1])})
		}
		return orderedJSON(out)
	}
	return nil
}

// reflectAV projects any Go value to AV: nil slices/maps/pointers are null.
func reflectAV(v reflect.Value) any {
	if !v.IsValid() {
		return obj{"t": "z"}
	}
	switch v.Kind() {
	case reflect.Interface:
		if v.IsNil() {
			return obj{"t": "z"}
		}
		if om, ok := v.Interface().(*ordered.MapSA); ok {
			if om == nil {
				return obj{"t": "z"}
			}
			kv := []any{}
			om.Range(func(k string, x any) error { kv = append(kv, []any{k, reflectAV(reflect.ValueOf(&x).Elem())}); return nil })
			return obj{"t": "m", "kv": kv}
		}
		return reflectAV(v.Elem())
	case reflect.Pointer:
		if v.IsNil() {
			return obj{"t": "z"}
		}
		if om, ok := v.Interface().(*ordered.MapSA); ok {
			kv := []any{}
			om.Range(func(k string, x any) error { kv = append(kv, []any{k, reflectAV(reflect.ValueOf(&x).Elem())}); return nil })
			return obj{"t": "m", "kv": kv}
		}
		return reflectAV(v.Elem())
	case reflect.Struct:
		kv := []any{}
		for i := 0; i < v.NumField(); i++ {
			kv = append(kv, []any{v.Type().Field(i).Name, reflectAV(v.Field(i))})
		}
		return obj{"t": "m", "kv": kv}
	case reflect.Slice:
		if v.IsNil() {
			return obj{"t": "z"}
		}
		e := []any{}
		for i := 0; i < v.Len(); i++ {
			e = append(e, reflectAV(v.Index(i)))
		}
		return obj{"t": "q", "e": e}
	case reflect.Map:
		if v.IsNil() {
			return obj{"t": "z"}
		}
		keys := v.MapKeys()
		sort.Slice(keys, func(i, j int) bool { return keys[i].String() < keys[j].String() })
		kv := []any{}
		for _, k := range keys {
			kv = append(kv, []any{k.String(), reflectAV(v.MapIndex(k))})
		}
		return obj{"t": "m", "kv": kv}
	case reflect.String:
		return avStr(v.String())
	case reflect.Int, reflect.Int64:
		return obj{"t": "n", "v": strconv.FormatInt(v.Int(), 10)}
	case reflect.Uint64:
		return obj{"t": "n", "v": strconv.FormatUint(v.Uint(), 10)}
	case reflect.Float64:
		return obj{"t": "n", "v": canonNum(v.Float())}
	case reflect.Bool:
		return obj{"t": "b", "v": v.Bool()}
	}
	return avStr(fmt.Sprintf("<%s>", v.Kind()))
}

func c16Prefill(v reflect.Value) {
	for i := 0; i < v.NumField(); i++ {
		f := v.Field(i)
		switch f.Kind() {
		case reflect.String:
			f.SetString("PRE")
		case reflect.Int:
			f.SetInt(-7)
		case reflect.Float64:
			f.SetFloat(-7.5)
		case reflect.Bool:
			f.SetBool(true)
		case reflect.Struct:
			c16Prefill(f)
		case reflect.Pointer:
			if f.Type().Elem().Kind() == reflect.Struct {
				f.Set(reflect.New(f.Type().Elem()))
				c16Prefill(f.Elem())
			}
		}
	}
}

func c16Event(c obj) obj {
	desc, _ := c["desc"].([]any)
	doc, _ := c["doc"].([]any)
	pre, _ := c["pre"].(bool)
	ev := obj{"c": obj{"desc": desc, "doc": doc, "pre": pre, "rot": c["rot"]}} // rot: the document key order is a function of the case
	p, msg := guarded(func() {
		seed := int64(1)
		if r, ok := c["rot"].(json.Number); ok {
			seed, _ = r.Int64()
		}
		if seed < 0 {
			seed = -seed
		}
		T := c16StructType(desc, seed)
		// document key order is shuffled: which key goes where must not depend on it
		order := make([]int, len(doc))
		for i := range order {
			order[i] = i
		}
		rand.New(rand.NewSource(seed)).Shuffle(len(order), func(i, j int) { order[i], order[j] = order[j], order[i] })
		src := ordered.NewMap[string, any](0)
		jpairs := [][2]any{}
		// every fifth document has an edit history: keys that were set and removed again (tombstones in the storage, no
		// compaction) are not keys of the document
		edited := seed%5 == 2 && len(doc) >= 2
		if edited {
			src.Set("removed_first", "gone")
		}
		for n, i := range order {
			pp := doc[i].([]any)
			src.Set(pp[0].(string), avToGeneric(pp[1]))
			jpairs = append(jpairs, [2]any{pp[0], avToJSONable(pp[1])})
			if edited && n == 0 {
				src.Set("removed_second", []any{"gone"})
			}
		}
		if edited {
			src.Delete("removed_first")
			src.Delete("removed_second")
		}
		dst := reflect.New(T)
		if pre {
			c16Prefill(dst.Elem())
		}
		ev["start"] = reflectAV(dst.Elem())
		err := ordered.Unmarshal(src, dst.Interface())
		ev["err"] = err != nil
		if err != nil {
			ev["errmsg"] = err.Error()
		}
		ev["ordered"] = reflectAV(dst.Elem())
		// reference: yaml.v3's own decoder on the same document
		text := asciiJSON(orderedJSON(jpairs))
		dst2 := reflect.New(T)
		var yerr error
		func() {
			// yaml.v3 itself refuses some struct types with a panic (an inline struct repeating an outer key):
			// that is the reference's business, not a panic of the code under test
			defer func() {
				if r := recover(); r != nil {
					yerr = fmt.Errorf("yaml.v3 panicked: %v", r)
				}
			}()
			yerr = yaml.Unmarshal(text, dst2.Interface())
		}()
		ev["yerr"] = yerr != nil
		if yerr != nil {
			ev["yerrmsg"] = yerr.Error()
		}
		ev["yamlv3"] = reflectAV(dst2.Elem())
		ev["text"] = string(text)
		ev["gotype"] = T.String()
	})
	ev["panic"] = p
	if p {
		ev["panicmsg"] = msg
		for _, k := range []string{"start", "ordered", "yamlv3"} {
			if _, ok := ev[k]; !ok {
				ev[k] = obj{"t": "z"}
			}
		}
		ev["err"], ev["yerr"] = false, false
	}
	return ev
}

// Hand-written targets that reflect.StructOf cannot build: a struct EMBEDDED with the inline flag (its fields are the
// outer struct's keys). Alias-free, zero-valued destinations: the result is what yaml.v3 gives.
type c16base struct {
	BName string   `yaml:"bname"`
	BTags []string `yaml:"btags"`
}
type C16Base struct {
	BName string   `yaml:"bname"`
	BTags []string `yaml:"btags"`
}
type c16EmbUnexp struct {
	Name    string `yaml:"name"`
	c16base `yaml:",inline"`
	Count   int `yaml:"count"`
}
type c16EmbExp struct {
	Name    string `yaml:"name"`
	C16Base `yaml:",inline"`
	Count   int `yaml:"count"`
}

var c16EmbDocs = []string{`{"name":"n","bname":"b","btags":["x","y"],"count":3}`, `{"bname":"only"}`, `{"count":7,"btags":[],"name":"n"}`, `{"name":"n"}`}

// c16NullItems: sequences whose elements can be "nothing" (pointers, maps, lists, any) - and one of strings, which cannot.
// A null item is an ELEMENT: it keeps its position, and the elements after it keep theirs. (Nulls stand only where the element
// type has a "nothing": a null inside a list of strings or of structs is not well-typed input - yaml.v3 skips such an item,
// this decoder yields the zero value; DESIGN.md names the deviation.)
type c16NullItems struct {
	Ptrs  []*c16Sub           `yaml:"ptrs"`
	Maps  []map[string]string `yaml:"maps"`
	Lists [][]string          `yaml:"lists"`
	Anys  []any               `yaml:"anys"`
	Strs  []string            `yaml:"strs"`
	Subs  []c16Sub            `yaml:"subs"`
}

var c16NullDocs = []string{
	`{"ptrs":[{"x":"a","y":1},null,{"x":"c","y":3}]}`, `{"ptrs":[null,{"x":"b","y":2}]}`, `{"ptrs":[{"x":"a"},null]}`, `{"ptrs":[null,null]}`,
	`{"maps":[{"k":"v"},null,{"k2":"v2"}],"lists":[["a"],null,["b","c"],[]]}`, `{"maps":[null],"lists":[null],"anys":[null]}`,
	`{"anys":[1,null,"x",null,{"a":null},[null]],"strs":["a","","c"]}`, `{"subs":[{"x":"a"},{"y":3}],"ptrs":[]}`,
	"ptrs:\n  - {x: a, y: 1}\n  - ~\n  -\n  - {x: d, y: 4}\nlists:\n  - [a]\n  - ~\n  - [b]\n",
}

func c16EmbeddedEvent(k int) obj {
	c := normalize(obj{"desc": []any{}, "doc": []any{}, "pre": false, "rot": k, "embedded": k})
	ev := obj{"c": c, "kind": "embedded", "start": obj{"t": "z"}, "ordered": obj{"t": "z"}, "yamlv3": obj{"t": "z"}, "err": false, "yerr": false}
	text := c16EmbDocs[k%len(c16EmbDocs)]
	nullItems := k >= 2*len(c16EmbDocs)
	if nullItems {
		text = c16NullDocs[(k-2*len(c16EmbDocs))%len(c16NullDocs)]
	}
	ev["text"] = text
	p, msg := guarded(func() {
		var n yaml.Node
		if err := yaml.Unmarshal([]byte(text), &n); err != nil {
			panic("driver: " + err.Error())
		}
		src, err := ordered.DecodeYAML(&n)
		if err != nil {
			panic("driver: " + err.Error())
		}
		var dst, ref reflect.Value
		if nullItems {
			dst, ref = reflect.ValueOf(&c16NullItems{}), reflect.ValueOf(&c16NullItems{})
		} else if (k/len(c16EmbDocs))%2 == 0 {
			dst, ref = reflect.ValueOf(&c16EmbUnexp{}), reflect.ValueOf(&c16EmbUnexp{})
		} else {
			dst, ref = reflect.ValueOf(&c16EmbExp{}), reflect.ValueOf(&c16EmbExp{})
		}
		err = ordered.Unmarshal(src, dst.Interface())
		ev["err"] = err != nil
		if err != nil {
			ev["errmsg"] = err.Error()
		}
		ev["ordered"] = reflectAV(dst.Elem())
		yerr := yaml.Unmarshal([]byte(text), ref.Interface())
		ev["yerr"] = yerr != nil
		ev["yamlv3"] = reflectAV(ref.Elem())
	})
	ev["panic"] = p
	if p {
		if strings.HasPrefix(msg, "driver:") {
			fatal("%s", msg)
		}
		ev["panicmsg"] = msg
	}
	return ev
}

func runC16(args []string) {
	fl := parseFlags(args)
	tw := newTraceWriter(fl.str("out", ""))
	defer tw.close()
	samples := []any{}
	types := map[string]bool{}
	casesFile := fl.str("cases", "")
	if casesFile == "" {
		casesFile = os.DevNull
	}
	readNDJSON(casesFile, func(n int, c obj) {
		if _, ok := c["rot"]; !ok {
			c["rot"] = json.Number(strconv.Itoa(n))
		}
		if e, ok := c["embedded"].(json.Number); ok {
			k, _ := e.Int64()
			tw.emit(c16EmbeddedEvent(int(k)))
			return
		}
		ev := c16Event(c)
		if t, ok := ev["gotype"].(string); ok {
			types[t] = true
		}
		if len(samples) < 3 && n%4099 == 17 {
			samples = append(samples, obj{"go_type": ev["gotype"], "document": ev["text"], "prefilled": c["pre"], "destination": ev["ordered"]})
		}
		delete(ev, "text")
		delete(ev, "gotype")
		tw.emit(ev)
	})
	if fl.str("embedded", "") != "" {
		for k := 0; k < 2*len(c16EmbDocs)+len(c16NullDocs); k++ {
			tw.emit(c16EmbeddedEvent(k))
		}
	}
	writeSummary(fl.str("summary", ""), obj{"events": tw.n, "struct_types": len(types), "samples": samples})
}
