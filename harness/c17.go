package main

import (
	"encoding/json"
	"math/rand"
	"strings"

	pipeline "github.com/buildkite/go-pipeline"
	"gopkg.in/yaml.v3"
)

// C17: plugin source canonicalisation. Each token-level source (exported by
// TLC with the string the specification spells for it, or generated here) goes
// through the real FullSource twice and through the JSON and YAML marshallers.

var c17Prefix = map[string][2]string{ // name -> text, separator (only used by the generator)
	"none": {"", "/"}, "slash": {"/", "/"}, "dotslash": {"./", "/"}, "dotdot": {"../", "/"}, "dot": {".", "/"},
	"bslash": {"\\", "\\"}, "drive": {"C:\\", "\\"}, "https": {"https://example.com/", "/"},
	"ssh": {"ssh://git@example.com/", "/"}, "file": {"file:///", "/"}, "scp": {"git@example.com:", "/"},
	"httpsU": {"HTTPS://Example.com/", "/"}, "sshU": {"Ssh://git@example.com/", "/"}, "drivefwd": {"C:/", "/"},
	"scpip": {"10.0.0.5:", "/"}, "scphy": {"-host:", "/"}, "hostcol": {"git.example.org:", "/"},
	"dslash": {"//", "/"}, "unc": {"\\\\", "\\"},
}

func c17Event(c obj) obj {
	src, _ := c["spelled"].(string)
	ev := obj{"c": c}
	p, msg := guarded(func() {
		pl := &pipeline.Plugin{Source: src, Config: nil}
		full := pl.FullSource()
		full2 := (&pipeline.Plugin{Source: full}).FullSource()
		ev["full"], ev["full2"] = full, full2
		jb, err := json.Marshal(pl)
		if err != nil {
			panic("json.Marshal: " + err.Error())
		}
		var jm map[string]any
		if err := json.Unmarshal(jb, &jm); err != nil || len(jm) != 1 {
			panic("marshalled plugin is not a one-key object: " + string(jb))
		}
		for k := range jm {
			ev["key"] = k
		}
		yb, err := yaml.Marshal(pl)
		if err != nil {
			panic("yaml.Marshal: " + err.Error())
		}
		var yn yaml.Node
		if err := yaml.Unmarshal(yb, &yn); err != nil || len(yn.Content) != 1 || yn.Content[0].Kind != yaml.MappingNode || len(yn.Content[0].Content) != 2 {
			panic("YAML-marshalled plugin is not a one-key mapping: " + string(yb))
		}
		ev["ykey"] = yn.Content[0].Content[0].Value
	})
	ev["panic"] = p
	if p {
		ev["panicmsg"] = msg
		ev["full"], ev["full2"], ev["key"], ev["ykey"] = "", "", "", ""
	}
	return ev
}

func runC17(args []string) {
	fl := parseFlags(args)
	tw := newTraceWriter(fl.str("out", ""))
	defer tw.close()
	samples := []any{}
	changed := 0
	add := func(ev obj) {
		if ev["full"] != ev["c"].(obj)["spelled"] {
			changed++
		}
		if len(samples) < 4 && tw.n%997 == 11 {
			samples = append(samples, obj{"source": ev["c"].(obj)["spelled"], "full": ev["full"], "marshalled_key": ev["key"]})
		}
		tw.emit(ev)
	}
	if cf := fl.str("cases", ""); cf != "" {
		readNDJSON(cf, func(_ int, c obj) { add(c17Event(c)) })
	} else {
		rng := newRand(int64(fl.int("seed", 1)), "c17gen")
		n := fl.int("n", 1000)
		prefixes := sortedKeys(c17Prefix)
		for i := 0; i < n; i++ {
			pn := "none"
			if rng.Intn(3) == 0 {
				pn = prefixes[rng.Intn(len(prefixes))]
			}
			nseg := 1 + rng.Intn(4)
			if rng.Intn(2) == 0 {
				nseg = 1 + rng.Intn(2)
			}
			segs := []any{}
			for j := 0; j < nseg; j++ {
				nm := c17Name(rng, 1+rng.Intn(24))
				if rng.Intn(6) == 0 {
					nm += "-buildkite-plugin" // a name that already carries the suffix is still a name
				} else if rng.Intn(8) == 0 {
					nm += []string{".git", ".github", ".git.x", ".GIT"}[rng.Intn(4)] // ... and so is one that ends like a repository address
				}
				segs = append(segs, nm)
			}
			ref := []any{}
			if rng.Intn(2) == 0 {
				for j, k := 0, 1+rng.Intn(3); j < k; j++ {
					ref = append(ref, c17Name(rng, 1+rng.Intn(12)))
				}
			}
			px := c17Prefix[pn]
			ss := make([]string, len(segs))
			for j := range segs {
				ss[j] = segs[j].(string)
			}
			sp := px[0] + strings.Join(ss, px[1])
			trail := (pn != "none" || len(ss) >= 3) && rng.Intn(4) == 0
			if trail {
				sp += px[1] // a directory-style path, a URL with a trailing slash: still exactly as written
			}
			if len(ref) > 0 {
				rs := make([]string, len(ref))
				for j := range ref {
					rs[j] = ref[j].(string)
				}
				sp += "#" + strings.Join(rs, "/")
			}
			add(c17Event(normalize(obj{"prefix": pn, "segs": segs, "ref": ref, "trail": trail, "spelled": sp})))
		}
	}
	writeSummary(fl.str("summary", ""), obj{"events": tw.n, "rewritten": changed, "samples": samples})
}

// c17Name: a name over [A-Za-z0-9._-] that is not dot-only and does not start
// with a dot (a leading dot is the "path" form, covered by the prefix "dot").
func c17Name(rng *rand.Rand, n int) string {
	const first = "abcdefghijklmnopqrstuvwxyzABCDEFGHIJKLMNOPQRSTUVWXYZ0123456789_-"
	const rest = first + "..--__"
	b := make([]byte, n)
	b[0] = first[rng.Intn(len(first))]
	for i := 1; i < n; i++ {
		b[i] = rest[rng.Intn(len(rest))]
	}
	return string(b)
}
