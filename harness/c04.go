package main

import (
	"bytes"
	"encoding/json"
	"fmt"
	"math/rand"
	"strings"

	pipeline "github.com/buildkite/go-pipeline"
	"github.com/buildkite/go-pipeline/warning"
)

// C04: env interpolation reaches every string exactly once. A case is a
// document in which EVERY string position holds a position-unique token string
// (one reference to its own variable P<i>, one escaped reference to its own
// variable Q<i>). The driver parses it, snapshots json.Marshal, interpolates
// with a recording env, snapshots again, and repeats the whole run R times.

type c04Gen struct {
	rng     *rand.Rand
	n       int
	strings [][2]any // [spelled, tokens]
	env     map[string]string
	failAt  int // position index that gets a ${P?} with P unset (-1: none)
	failCls string // or: the first string of this class gets it ("" none)
}

func (g *c04Gen) mk(class string) string {
	g.n++
	i := g.n
	p, q := fmt.Sprintf("P%d", i), fmt.Sprintf("Q%d", i)
	switch i % 5 {
	case 1:
		p = fmt.Sprintf("\u00c9tape%d", i) // identifiers are not ASCII-only: any letter starts one
	case 3:
		p = fmt.Sprintf("\u03a9_%d", i)
	}
	refForm := []string{"brace", "plain"}[g.rng.Intn(2)] // $NAME and ${NAME} are the same reference (what follows is never an identifier character)
	g.env[q] = fmt.Sprintf("BAD%d", i) // an escaped reference must never be looked up
	lead := ""
	switch class {
	case "pluginsrc":
		lead = "./pl-" // a path: FullSource leaves it as written
	case "key", "envname", "dim", "cachename":
		lead = fmt.Sprintf("k%d-", i)
	default:
		lead = fmt.Sprintf("s%d ", i)
	}
	if g.failCls != "" && class == g.failCls && g.failAt < 0 {
		g.failAt = i
	}
	toks := []any{tokLit(lead)}
	if i != g.failAt && g.rng.Intn(7) == 0 {
		// the ONLY interpolation syntax of this string is an escape that no identifier follows: `$$` before
		// punctuation, a digit, a space, another `$$`, or the end of the string. It still comes out as one `$`.
		tails := [][]any{{tokEsc("(date)", "dd")}, {tokEsc("", "dd")}, {tokEsc("@x", "dd")}, {tokEsc("1", "dd")}, {tokEsc(" rest", "dd")},
			{tokEsc("", "dd"), tokEsc("", "dd")}, {tokEsc("-", "dd"), tokLit("mid"), tokEsc("", "dd")}}
		toks = append(toks, tails[g.rng.Intn(len(tails))]...)
		s := spell(toks)
		g.strings = append(g.strings, [2]any{s, toks})
		return s
	}
	if i != g.failAt && g.rng.Intn(8) == 0 {
		// the ONLY interpolation syntax of this string is one bare `$name` whose name starts with a non-ASCII letter
		u := fmt.Sprintf("\u00e9tape%d", i)
		if g.rng.Intn(2) == 0 {
			u = fmt.Sprintf("\u03a9mega%d", i)
		}
		if g.rng.Intn(3) > 0 {
			g.env[u] = fmt.Sprintf("u%d", i) // (else unset: expands to "")
		}
		toks = append(toks, tokRef(u, "plain"), tokLit(". end"))
		s := spell(toks)
		g.strings = append(g.strings, [2]any{s, toks})
		return s
	}
	if i == g.failAt {
		toks = append(toks, tokReq(p))
	} else {
		dflt := "D"
		if class == "command" && g.rng.Intn(2) == 0 {
			dflt = "first line\n  second line D" // an expansion is a unit of the STRING: its text may run over line breaks
		}
		switch g.rng.Intn(6) {
		case 0: // unset: expands to ""
			toks = append(toks, tokRef(p, refForm))
		case 1:
			g.env[p] = fmt.Sprintf("v%d", i)
			toks = append(toks, tokDflt(p, dflt, "empty"))
		case 2:
			g.env[p] = ""
			toks = append(toks, tokDflt(p, dflt, []string{"empty", "unset"}[g.rng.Intn(2)]))
		case 3:
			g.env[p] = fmt.Sprintf("v%d", i)
			toks = append(toks, tokReq(p))
		default:
			g.env[p] = fmt.Sprintf("v%d", i)
			toks = append(toks, tokRef(p, refForm))
		}
	}
	qv := q
	if g.rng.Intn(3) == 0 {
		qv = "{" + q + "}" // an escaped BRACED reference, `$${Q}` / `\${Q}`: comes out as the text `${Q}` - and stays that
	}
	toks = append(toks, tokLit("."), tokEsc(qv, []string{"dd", "bs"}[g.rng.Intn(2)]))
	if g.rng.Intn(2) == 0 {
		toks = append(toks, tokLit("-e"))
	}
	s := spell(toks)
	g.strings = append(g.strings, [2]any{s, toks})
	return s
}

type countingEnv struct {
	m      map[string]string
	counts map[string]int
}

func (e *countingEnv) Get(n string) (string, bool) { e.counts[n]++; v, ok := e.m[n]; return v, ok }
func (e *countingEnv) Set(n, v string)             { e.m[n] = v }

// c04Run parses src, interpolates, and returns (before, after, counts, err).
func c04Run(src string, env map[string]string) (before, after []byte, counts map[string]int, ierr error) {
	pl, err := pipeline.Parse(strings.NewReader(src))
	if err != nil && !warning.Is(err) {
		panic("driver: document does not parse: " + err.Error() + "\n" + src)
	}
	before, err = json.Marshal(pl)
	if err != nil {
		panic("driver: marshal before: " + err.Error())
	}
	ce := &countingEnv{m: map[string]string{}, counts: map[string]int{}}
	for k, v := range env {
		ce.m[k] = v
	}
	ierr = pl.Interpolate(ce, false)
	after, err = json.Marshal(pl)
	if err != nil {
		panic("marshal after: " + err.Error())
	}
	return before, after, ce.counts, ierr
}

func c04Event(c obj) obj {
	src, _ := c["src"].(string)
	env := map[string]string{}
	for k, v := range asMap(c["env"]) {
		env[k], _ = v.(string)
	}
	R := 8
	if r, ok := c["repeats"].(json.Number); ok {
		v, _ := r.Int64()
		R = int(v)
	}
	ev := obj{"c": obj{"src": src, "repeats": R}, "strings": c["strings"], "env": c["env"]}
	p, msg := guarded(func() {
		before, after, counts, ierr := c04Run(src, env)
		same := true
		for r := 1; r < R; r++ {
			b2, a2, _, e2 := c04Run(src, env)
			if !bytes.Equal(before, b2) || !bytes.Equal(after, a2) || (ierr == nil) != (e2 == nil) {
				same = false
			}
		}
		bav, err := avFromJSON(before)
		if err != nil {
			panic("driver: before is not JSON: " + err.Error())
		}
		aav, err := avFromJSON(after)
		if err != nil {
			panic("driver: after is not JSON: " + err.Error())
		}
		ev["before"], ev["after"], ev["same"], ev["err"] = bav, aav, same, ierr != nil
		if ierr != nil {
			ev["errmsg"] = ierr.Error()
		}
		gc := obj{}
		for k, v := range counts {
			gc[k] = v
		}
		ev["getcounts"] = gc
	})
	ev["panic"] = p
	if p {
		if strings.HasPrefix(msg, "driver:") {
			fatal("%s", msg)
		}
		ev["panicmsg"] = msg
		ev["before"], ev["after"], ev["same"], ev["err"], ev["getcounts"] = obj{"t": "z"}, obj{"t": "z"}, false, false, obj{}
	}
	return ev
}

func c04Case(rng *rand.Rand, i int) obj {
	g := &c04Gen{rng: rng, env: map[string]string{}, failAt: -1}
	dg := &docGen{rng: rng, str: g.mk, maxDepth: 2 + rng.Intn(2), pathPlugin: true, oneCommand: true}
	dg.bigMaps = i%5 == 4
	if i%11 == 10 {
		g.failAt = 1 + rng.Intn(12)
	}
	if i%11 == 5 {
		// the failing expansion sits where a walker has "something else" to carry on with: a plugin source (its
		// config follows), a mapping key (its value follows), an env name, a matrix dimension
		g.failCls = []string{"pluginsrc", "pluginsrc", "key", "envname", "dim", "stepkey", "cachename", "matrixval", "skip"}[rng.Intn(9)]
	}
	doc := dg.pipeline()
	// twin keys: an escaped key next to its unescaped twin ("$$T" and "$T"): the first expands to the
	// second's ORIGINAL spelling, the second to a value - no two results collide, yet a rename applied
	// in place can destroy one of them
	if top, ok := doc.(orderedJSON); ok && i%3 == 0 {
		g.n++
		tv := fmt.Sprintf("T%d", g.n)
		g.env[tv] = "twin-value-" + tv
		esc := []any{tokEsc(tv, "dd")}
		ref := []any{tokRef(tv, "plain")}
		g.strings = append(g.strings, [2]any{spell(esc), esc}, [2]any{spell(ref), ref})
		twins := func() orderedJSON { return orderedJSON{{spell(esc), "a"}, {spell(ref), "b"}, {"plain", "c"}} }
		for pi, p := range top {
			if p[0] != "steps" {
				continue
			}
			steps, _ := p[1].([]any)
			for si, st := range steps {
				if m, ok := st.(orderedJSON); ok {
					isCmd := false
					for _, q := range m {
						if q[0] == "command" {
							isCmd = true
						}
					}
					if isCmd {
						m = append(m, [2]any{"twins", twins()}, [2]any{"meta", orderedJSON{{"deep", twins()}}})
						// ... and as DIRECT keys of Go-map-backed levels: the step's unknown fields and its env
						m = append(m, [2]any{spell(esc), "a-step"}, [2]any{spell(ref), "b-step"})
						hasEnv := false
						for qi, q := range m {
							if e, ok := q[1].(orderedJSON); ok && q[0] == "env" {
								m[qi][1] = append(append(orderedJSON{}, e...), [2]any{spell(esc), "a-env"}, [2]any{spell(ref), "b-env"})
								hasEnv = true
							}
						}
						if !hasEnv {
							m = append(m, [2]any{"env", orderedJSON{{spell(esc), "a-env"}, {spell(ref), "b-env"}}})
						}
						steps[si] = m
						break
					}
				}
			}
			top[pi][1] = steps
		}
		top = append(top, [2]any{"x-twins", twins()}, [2]any{spell(esc), "a-top"}, [2]any{spell(ref), "b-top"})
		doc = top
	}
	src := string(asciiJSON(doc))
	if i%7 == 6 {
		// a subtree shared through a YAML anchor/alias: each alias is an independent copy
		sh := dg.freeMap(1, 2+rng.Intn(3))
		src = fmt.Sprintf(`{"x-shared": &sh %s, "steps": [{"command": %s, "agents": *sh }, {"wait": null, "meta": [*sh , *sh ]}, {"unknownish": *sh }]}`,
			asciiJSON(sh), asciiJSON(g.mk("command")))
	}
	env := obj{}
	for k, v := range g.env {
		env[k] = v
	}
	strs := []any{}
	for _, s := range g.strings {
		strs = append(strs, []any{s[0], s[1]})
	}
	return obj{"src": src, "env": env, "strings": strs, "repeats": 8}
}

func runC04(args []string) {
	fl := parseFlags(args)
	tw := newTraceWriter(fl.str("out", ""))
	defer tw.close()
	samples := []any{}
	nstr := 0
	add := func(c, ev obj) {
		if l, ok := ev["strings"].([]any); ok {
			nstr += len(l)
		}
		if len(samples) < 2 && tw.n%37 == 3 {
			samples = append(samples, obj{"document": c["src"], "env_size": len(asMap(c["env"])), "get_counts": ev["getcounts"], "err": ev["err"]})
		}
		tw.emit(ev)
	}
	if fl.str("probes", "") != "" {
		// fixed inputs for defects recorded in known_findings.json (reported as KNOWN-FINDING by probe id)
		for _, pr := range c04Probes {
			c := normalize(obj{"src": pr.src, "repeats": 300, "env": pr.env, "strings": pr.strings})
			ev := c04Event(c)
			ev["probe"] = pr.id
			add(c, ev)
		}
		writeSummary(fl.str("summary", ""), obj{"events": tw.n})
		return
	}
	if cf := fl.str("cases", ""); cf != "" {
		readNDJSON(cf, func(_ int, c obj) {
			if c["kind"] == "nilenv" {
				tw.emit(c04NilEnvEvent(c["name"].(string)))
				return
			}
			ev := c04Event(c)
			if pid, ok := c["probe"].(string); ok && pid != "" {
				ev["probe"] = pid
			}
			add(c, ev)
		})
	} else {
		rng := newRand(int64(fl.int("seed", 1)), "c04gen")
		R := fl.int("repeats", 8)
		for i, n := 0, fl.int("n", 100); i < n; i++ {
			c := c04Case(rng, i)
			c["repeats"] = R
			c = normalize(c)
			add(c, c04Event(c))
			if i%5 == 0 {
				tw.emit(c04NilEnvEvent(fmt.Sprintf("C04N_%d_%d", fl.int("seed", 1), i)))
			}
		}
	}
	writeSummary(fl.str("summary", ""), obj{"events": tw.n, "strings": nstr, "samples": samples})
}


// c04Probes: inputs that exhibit recorded, unrepaired defects (see /verif/known_findings.json).
var c04Probes = []struct {
	id, src string
	env     obj
	strings []any
}{
	// two keys of one Go map (a step env) that expand to the SAME name: which pair survives depends on Go's
	// map iteration order, so repeated runs on the same input differ
	{"F17-colliding-go-map-keys", `{"steps":[{"command":"c","env":{"$A":"from-dollar-A","a":"from-a"}}]}`, obj{"A": "a"},
		[]any{[]any{"$A", []any{tokRef("A", "plain")}}}},
}


// c04NilEnvEvent: two pipelines interpolated with a NIL environment, one after the other in this process. The first
// defines a variable in its env block and uses it; the second only refers to it. With no caller environment each
// call starts from an empty one: nothing the first pipeline defined may be visible to the second.
func c04NilEnvEvent(name string) obj {
	ev := obj{"kind": "nilenv", "name": name, "val": "leak-" + name, "a": "", "b": "", "err": false}
	p, msg := guarded(func() {
		run := func(doc string) string {
			pl, err := pipeline.Parse(strings.NewReader(doc))
			if err != nil {
				panic("driver: " + err.Error())
			}
			if err := pl.Interpolate(nil, false); err != nil {
				ev["err"] = true
				return ""
			}
			return pl.Steps[0].(*pipeline.CommandStep).Command
		}
		ev["a"] = run(fmt.Sprintf(`{"env":{%q:%q},"steps":[{"command":"a ${%s}"}]}`, name, "leak-"+name, name))
		ev["b"] = run(fmt.Sprintf(`{"steps":[{"command":"b ${%s-unset} ${%s}|"}]}`, name, name))
	})
	ev["panic"] = p
	if p {
		if strings.HasPrefix(msg, "driver:") {
			fatal("%s", msg)
		}
		ev["panicmsg"] = msg
	}
	return ev
}
