package main

import (
	"fmt"
	"math/rand"
	"strings"

	ienv "github.com/buildkite/go-pipeline/internal/env"
)

// Token strings shared by the interpolation checks (C10, C04): the Go mirror of
// spec/Interp.tla's Spell, used only by the seeded generators (TLC-exported
// cases carry the string the specification spells).

func tokLit(s string) obj     { return obj{"t": "lit", "s": s} }
func tokRef(v, f string) obj  { return obj{"t": "ref", "v": v, "f": f} }
func tokEsc(v, f string) obj  { return obj{"t": "esc", "v": v, "f": f} }
func tokDflt(v, d, k string) obj { return obj{"t": "dflt", "v": v, "d": d, "k": k} }
func tokReq(v string) obj     { return obj{"t": "req", "v": v} }

func spellTok(x obj) string {
	v, _ := x["v"].(string)
	switch x["t"] {
	case "lit":
		return x["s"].(string)
	case "ref":
		if x["f"] == "plain" {
			return "$" + v
		}
		return "${" + v + "}"
	case "esc":
		if x["f"] == "dd" {
			return "$$" + v
		}
		return `\$` + v
	case "dflt":
		if x["k"] == "empty" {
			return "${" + v + ":-" + x["d"].(string) + "}"
		}
		return "${" + v + "-" + x["d"].(string) + "}"
	case "req":
		return "${" + v + "?}"
	}
	fatal("bad token %v", x)
	return ""
}

func spell(segs []any) string {
	var b strings.Builder
	for _, s := range segs {
		b.WriteString(spellTok(s.(obj)))
	}
	return b.String()
}

// foldingEnv is the harness's own caller environment with a chosen name equality.
type foldingEnv struct {
	m     map[string]string
	upper bool
}

func (e *foldingEnv) fold(n string) string {
	if e.upper {
		return strings.ToUpper(n)
	}
	return n
}
func (e *foldingEnv) Get(n string) (string, bool) { v, ok := e.m[e.fold(n)]; return v, ok }
func (e *foldingEnv) Set(n, v string)             { e.m[e.fold(n)] = v }

type callerEnv interface {
	Get(string) (string, bool)
	Set(string, string)
}

// recEnv records every Get/Set the library makes on the caller-supplied env.
type recEnv struct {
	inner callerEnv
	log   []any
}

func (r *recEnv) Get(n string) (string, bool) {
	v, ok := r.inner.Get(n)
	r.log = append(r.log, []any{"get", n, ok, v})
	return v, ok
}
func (r *recEnv) Set(n, v string) {
	r.inner.Set(n, v)
	r.log = append(r.log, []any{"set", n, v})
}

func newCallerEnv(kind, mode string, init map[string]string) callerEnv {
	switch kind {
	case "harness":
		e := &foldingEnv{m: map[string]string{}, upper: mode == "upper"}
		for k, v := range init {
			e.Set(k, v)
		}
		return e
	case "internal":
		return ienv.New(ienv.CaseSensitive(mode != "upper"), ienv.FromMap(init))
	}
	fatal("bad env kind %s", kind)
	return nil
}

// a literal without "$", backslash, or identifier characters at its edges
func randLit(rng *rand.Rand) string {
	mids := []string{"", "X", "7", "A B", "-", "/P/", "=", "Q.R"}
	edges := []string{"-", ".", " ", "/", ":", "+", "(", ")", ","}
	return edges[rng.Intn(len(edges))] + mids[rng.Intn(len(mids))] + edges[rng.Intn(len(edges))]
}

var _ = fmt.Sprint
