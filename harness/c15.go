package main

import (
	"encoding/json"
	"errors"
	"os"
	"strings"

	pipeline "github.com/buildkite/go-pipeline"
	"github.com/buildkite/go-pipeline/ordered"
	"github.com/buildkite/go-pipeline/warning"
)

// C15: step kinds are chosen by the documented rule table. Every row exported
// by TLC (key subset x type x extra key, and scalar steps) is rendered as a
// one-step document with minimal well-typed values and parsed by the real
// Parse; the dynamic type of the resulting step and the sentinels carried by
// the warning are logged.

var c15Values = map[string]any{
	"command": "c", "commands": []any{"c1", "c2"}, "plugins": []any{obj{"p#v1": nil}},
	"wait": nil, "waiter": nil, "block": "b", "input": "i", "manual": "m", "trigger": "t", "group": "g",
	"steps": []any{}, "label": "l", "key": "k",
}

// c15Variants: other well-typed values a kind-determining key may carry - present but empty, null,
// or of another shape. Which KEYS are present decides the kind, never what they hold.
var c15Variants = map[string][]any{
	"plugins":  {[]any{}, obj{}, nil, obj{"p#v1": obj{"a": 1}}, []any{orderedJSON{{"p#v1", nil}, {"q#v2", obj{"a": 1}}}, "r#v3"}}, // (the last: one list item naming two plugins)
	"command":  {"", nil},
	"commands": {[]any{}, nil, "single"},
	"wait":     {"w", "", true},
	"waiter":   {"w"},
	"block":    {"", nil},
	"input":    {"", nil},
	"manual":   {nil},
	"trigger":  {""},
	"group":    {nil, ""},
}

// c15Value: the value of key k in row idx - the minimal one two times out of three, else a variant.
func c15Value(k string, idx int) any {
	vs := c15Variants[k]
	if len(vs) == 0 || (idx/3)%3 != 2 {
		return c15Values[k]
	}
	return vs[(idx/9)%len(vs)]
}

func stepKind(s pipeline.Step) string {
	switch s.(type) {
	case *pipeline.CommandStep:
		return "command"
	case *pipeline.WaitStep:
		return "wait"
	case *pipeline.InputStep:
		return "input"
	case *pipeline.TriggerStep:
		return "trigger"
	case *pipeline.GroupStep:
		return "group"
	case *pipeline.UnknownStep:
		return "unknown"
	case nil:
		return "nil"
	}
	return "other"
}

func sentinelOf(err error) string {
	ut := errors.Is(err, pipeline.ErrUnknownStepType)
	inf := errors.Is(err, pipeline.ErrStepTypeInference)
	switch {
	case ut && inf:
		return "both"
	case ut:
		return "unknown_type"
	case inf:
		return "inference"
	}
	return "none"
}

func runC15(args []string) {
	fl := parseFlags(args)
	tw := newTraceWriter(fl.str("out", ""))
	defer tw.close()
	nest := fl.int("nest", 0)
	n := 0
	samples := []any{}
	casesFile := fl.str("cases", "")
	if casesFile == "" {
		casesFile = os.DevNull
	}
	readNDJSON(casesFile, func(_ int, c obj) {
		n++
		// every index-derived rendering choice comes from the case itself, so a
		// single case replays exactly as it ran
		idx := n
		if r, ok := c["rot"].(json.Number); ok {
			v, _ := r.Int64()
			idx = int(v)
		}
		var step any
		malformed := false
		if c["form"] == "scalar" {
			step = c["s"]
		} else {
			// ordered rendering: kind keys in a seeded-but-fixed rotation, then type, then extra
			keys := strs(c["keys"])
			pairs := [][2]any{}
			rot := idx % (len(keys) + 1)
			// every fifth row (scattered) is MALFORMED: the keys of the command family, and a group's `steps`, hold values
			// their fields cannot take. Such a step is the kind its keys say or - reported - an unknown step; never
			// the kind of a LATER family whose key also happens to be there
			malformed = ((uint64(idx)*2654435761)>>12)%5 == 0 && nest == 0
			bad := map[string]any{"command": obj{"not": "a string"}, "commands": obj{"not": "a list"}, "plugins": 42}
			for i := range keys {
				k := keys[(i+rot)%len(keys)]
				v := c15Value(k, idx)
				if b, isBad := bad[k]; malformed && isBad {
					v = b
				}
				pairs = append(pairs, [2]any{k, v})
				if malformed && k == "group" && c["extra"] != "steps" {
					pairs = append(pairs, [2]any{"steps", "not a list"})
				}
			}
			if malformed && idx%2 == 0 {
				pairs = append(pairs, [2]any{"env", "not a mapping"}) // (only a command step has an env to get wrong)
			}
			if t, _ := c["type"].(string); t != "<absent>" {
				pairs = append(pairs, [2]any{"type", t})
			}
			if x, _ := c["extra"].(string); x != "<none>" {
				dup := false
				for _, p := range pairs {
					if p[0] == x {
						dup = true
					}
				}
				if !dup {
					v, ok := c15Values[x]
					if !ok {
						v = "x"
					}
					// extras go first half the time: position must not matter either
					if idx%2 == 0 {
						pairs = append([][2]any{{x, v}}, pairs...)
					} else {
						pairs = append(pairs, [2]any{x, v})
					}
				}
			}
			step = orderedJSON(pairs)
		}
		// a step's kind depends on its OWN keys only: half of the rows are preceded, in the same sequence, by a
		// (valid, warning-free) step of some family - wait, command, trigger, block, group, a scalar
		seq := []any{step}
		npre := 0
		if idx%2 == 1 && nest == 0 {
			pres := []any{
				orderedJSON{{"wait", nil}}, orderedJSON{{"command", "pre"}}, orderedJSON{{"trigger", "pre"}}, orderedJSON{{"block", "pre"}},
				orderedJSON{{"group", "pre"}, {"steps", []any{}}}, "wait", orderedJSON{{"plugins", []any{obj{"p#v1": nil}}}},
			}
			seq = []any{pres[(idx/2)%len(pres)], step}
			npre = 1
		}
		if (idx/7)%6 == 3 && nest == 0 && npre == 0 {
			seq = []any{step, "wait", step} // the same row twice in one sequence: two steps, and - if unknown - two reports
			npre = 2
		}
		var doc any = obj{"steps": seq}
		top := idx%4 == 3
		if ft := fl.str("top", ""); ft != "" {
			top = ft == "1"
		}
		for i := 0; i < nest; i++ {
			doc = obj{"steps": []any{orderedJSON([][2]any{{"group", "g"}, {"steps", []any{step}}})}}
			step = orderedJSON([][2]any{{"group", "g"}, {"steps", []any{step}}})
		}
		if top {
			// an unrelated top-level key next to `steps` must not change anything either
			doc = orderedJSON([][2]any{{"zz_toplevel", obj{"a": 1}}, {"steps", doc.(obj)["steps"]}})
		}
		src := string(asciiJSON(doc))
		ev := obj{"c": c, "nest": nest, "top": top, "npre": npre, "nunk": 0, "nfb": 0}
		// every fifth map-shaped row is not parsed from text but handed to the step decoder as an ordered map that has
		// been EDITED through its API: a key of the command family was set first and deleted again. What decides
		// is what the map holds, not what its storage remembers.
		if malformed {
			ev["malformed"] = true
		}
		edited := idx%5 == 0 && nest == 0 && npre == 0 && c["form"] != "scalar" && !malformed
		if sm, ok := step.(orderedJSON); ok && edited {
			for _, p := range sm {
				if p[0] == "command" || p[0] == "commands" || p[0] == "plugins" {
					edited = false
				}
			}
			if edited {
				ev["edited"] = true
				pe, msg := guarded(func() {
					m := ordered.NewMap[string, any](0)
					m.Set("commands", []any{"gone"})
					m.Set("plugins", []any{})
					for _, p := range sm {
						m.Set(p[0].(string), genericFromDoc(p[1]))
					}
					m.Delete("commands")
					m.Delete("plugins")
					var steps pipeline.Steps
					err := ordered.Unmarshal([]any{m}, &steps)
					ev["warn"], ev["hard"], ev["sentinel"] = warning.Is(err), err != nil && !warning.Is(err), sentinelOf(err)
					ev["nsteps"], ev["kind"] = len(steps), "none"
					if err != nil {
						ev["err"] = err.Error()
					}
					if len(steps) > 0 {
						ev["kind"] = stepKind(steps[0])
					}
				})
				ev["panic"] = pe
				if pe {
					ev["panicmsg"] = msg
					ev["warn"], ev["hard"], ev["sentinel"], ev["nsteps"], ev["kind"] = false, false, "none", 0, "none"
				}
				tw.emit(ev)
				return
			}
		}
		if idx%6 == 2 {
			// history: this process has just hard-failed on a run of other documents (a number, a list, a non-string
			// `type` where a step belongs, inside groups too). A step's kind depends on its own keys, not on the past
			ev["poison"] = true
			for rep := 0; rep < 7; rep++ {
				for _, bad := range []string{`{"steps": [42]}`, `{"steps": [{"type": 7}]}`, `{"steps": [["wait"]]}`,
					`{"steps": [{"group": "g", "steps": [{"group": "h", "steps": [42]}]}]}`} {
					func() {
						defer func() { recover() }()
						pipeline.Parse(strings.NewReader(bad))
					}()
				}
			}
		}
		p, msg := guarded(func() {
			pl, err := pipeline.Parse(strings.NewReader(src))
			ev["warn"] = warning.Is(err)
			ev["hard"] = err != nil && !warning.Is(err)
			ev["sentinel"] = sentinelOf(err)
			ev["nsteps"] = 0
			ev["kind"] = "none"
			if err != nil {
				ev["err"] = err.Error()
			}
			if pl == nil || (err != nil && !warning.Is(err)) {
				return
			}
			steps := pl.Steps
			for i := 0; i < nest; i++ {
				if len(steps) != 1 {
					ev["kind"] = "badnest"
					return
				}
				g, ok := steps[0].(*pipeline.GroupStep)
				if !ok {
					ev["kind"] = "badnest"
					return
				}
				steps = g.Steps
			}
			ev["nsteps"] = len(steps) - npre
			if len(steps) > npre {
				ev["kind"] = stepKind(steps[len(steps)-1])
			}
			// every step that fell back to an unknown step has a report of its own in the warning
			ev["nunk"], ev["nfb"] = countUnknown(pl.Steps), countFallbacks(err)
		})
		ev["panic"] = p
		if p {
			ev["panicmsg"] = msg
			ev["warn"], ev["hard"], ev["sentinel"], ev["nsteps"], ev["kind"] = false, false, "none", 0, "none"
		}
		if len(samples) < 3 && n%977 == 5 {
			samples = append(samples, obj{"case": c, "document": src, "kind": ev["kind"], "sentinel": ev["sentinel"]})
		}
		tw.emit(ev)
	})
	if fl.str("probes", "") != "" {
		// fixed inputs for defects recorded in known_findings.json
		// F28: a plain YAML timestamp as the value of an ADDITIONAL typed key (label) of a command step
		for _, pr := range [][2]string{{"F28-timestamp-in-typed-field", "steps:\n  - command: x\n    label: 2024-01-01\n"}} {
			c := normalize(obj{"form": "map", "keys": []any{"command"}, "type": "<absent>", "extra": "label", "rot": 0})
			ev := obj{"c": c, "nest": 0, "top": false, "npre": 0, "nunk": 0, "nfb": 0, "probe": pr[0], "warn": false, "hard": false, "sentinel": "none", "nsteps": 0, "kind": "none"}
			p, msg := guarded(func() {
				pl, err := pipeline.Parse(strings.NewReader(pr[1]))
				ev["warn"], ev["hard"], ev["sentinel"] = warning.Is(err), err != nil && !warning.Is(err), sentinelOf(err)
				if err != nil {
					ev["err"] = err.Error()
				}
				if pl != nil && len(pl.Steps) > 0 {
					ev["nsteps"], ev["kind"] = len(pl.Steps), stepKind(pl.Steps[0])
				}
			})
			ev["panic"] = p
			if p {
				ev["panicmsg"] = msg
			}
			tw.emit(ev)
		}
	}
	writeSummary(fl.str("summary", ""), obj{"events": tw.n, "samples": samples})
}
