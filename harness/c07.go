package main

import (
	"encoding/json"
	"fmt"
	"math/rand"
	"reflect"
	"runtime/debug"
	"strings"
	"time"

	pipeline "github.com/buildkite/go-pipeline"
	"github.com/buildkite/go-pipeline/ordered"
	"github.com/buildkite/go-pipeline/warning"
	"gopkg.in/yaml.v3"
)

// C07: anchors, aliases, merges and cycles. A case is a graph: named mapping
// nodes with entries (explicit or `<<`), values being scalars, aliases, inline
// definitions and sequences. The graph is decoded by the real code in several
// ways; graphs the specification says contain a cycle are decoded in a child
// process, so that a stack overflow is observed as a crash of that input.

type c07Builder struct {
	aliased map[string]bool // names that some alias refers to: only those carry an anchor
	g      map[string]any
	nodes  map[string]*yaml.Node
	akeys  bool // write some keys as aliases to anchored scalars
	spell  bool // write the keys "12" and "true" in non-canonical spellings (0xc, 1_2, +12, True, TRUE)
	dupanc bool // every anchored mapping carries the SAME anchor name: identity is the node, never the name
	keyAnc map[string]*yaml.Node
	rng    *rand.Rand
}

func (b *c07Builder) node(name string) *yaml.Node {
	if n, ok := b.nodes[name]; ok {
		return n
	}
	n := &yaml.Node{Kind: yaml.MappingNode, Tag: "!!map"}
	if b.aliased == nil || b.aliased[name] {
		n.Anchor = name
		if b.dupanc {
			n.Anchor = "r"
		}
	}
	b.nodes[name] = n // registered before the body is built: cycles close on it
	entries, _ := b.g[name].([]any)
	for _, e := range entries {
		em := e.(map[string]any)
		var k *yaml.Node
		if m, _ := em["m"].(bool); m {
			k = &yaml.Node{Kind: yaml.ScalarNode, Tag: "!!merge", Value: "<<"}
		} else {
			ks, _ := em["k"].(string)
			k = &yaml.Node{Kind: yaml.ScalarNode, Tag: "!!str", Value: ks}
			tag, sp := c07Spell(ks, b.rng)
			if b.spell && tag != "" {
				k = &yaml.Node{Kind: yaml.ScalarNode, Tag: tag, Value: sp}
			}
			if b.akeys && b.rng.Intn(3) == 0 {
				// the key is written as an alias to an anchored scalar (itself in a non-canonical spelling when
				// the case asks for spellings): an alias key stands for the anchored node, canonical form included
				anc, ok := b.keyAnc[ks]
				if !ok {
					anc = &yaml.Node{Kind: yaml.ScalarNode, Tag: "!!str", Value: ks, Anchor: fmt.Sprintf("key_%d", len(b.keyAnc))}
					if b.spell && tag != "" {
						anc.Tag, anc.Value = tag, sp
					}
					b.keyAnc[ks] = anc
				}
				k = &yaml.Node{Kind: yaml.AliasNode, Alias: anc, Value: anc.Anchor}
			}
		}
		n.Content = append(n.Content, k, b.value(em["v"].(map[string]any)))
	}
	return n
}

// seqS: the anchored sequence g["S"] (registered before its elements are built: it may contain an alias to itself).
func (b *c07Builder) seqS() *yaml.Node {
	if n, ok := b.nodes["\x00S"]; ok {
		return n
	}
	n := &yaml.Node{Kind: yaml.SequenceNode, Tag: "!!seq", Anchor: "S"}
	b.nodes["\x00S"] = n
	el, _ := b.g["S"].([]any)
	for _, x := range el {
		n.Content = append(n.Content, b.value(x.(map[string]any)))
	}
	return n
}

func (b *c07Builder) value(v map[string]any) *yaml.Node {
	switch v["t"] {
	case "s":
		return &yaml.Node{Kind: yaml.ScalarNode, Tag: "!!str", Value: v["s"].(string)}
	case "a":
		t := b.node(v["n"].(string))
		return &yaml.Node{Kind: yaml.AliasNode, Alias: t, Value: t.Anchor}
	case "n":
		return b.node(v["n"].(string))
	case "q":
		n := &yaml.Node{Kind: yaml.SequenceNode, Tag: "!!seq"}
		el, _ := v["e"].([]any)
		for _, x := range el {
			n.Content = append(n.Content, b.value(x.(map[string]any)))
		}
		return n
	case "sd":
		return b.seqS()
	case "sa":
		t := b.seqS()
		return &yaml.Node{Kind: yaml.AliasNode, Alias: t, Value: "S"}
	}
	fatal("c07: bad value %v", v)
	return nil
}

// c07Spell: a spelling of a key that yaml.v3 resolves to a non-string scalar whose
// canonical key form is ks ("" tag: the key has no such spelling).
func c07Spell(ks string, rng *rand.Rand) (tag, spelling string) {
	switch ks {
	case "12":
		return "!!int", []string{"12", "0xc", "0xC", "1_2", "+12", "0o14", "0b1100"}[rng.Intn(7)]
	case "true":
		return "!!bool", []string{"true", "True", "TRUE"}[rng.Intn(3)]
	}
	return "", ""
}

// text renders the graph as flow-style YAML when every alias refers to an anchor
// whose definition has already started; ok=false otherwise.
type c07Text struct {
	spell   bool
	rng     *rand.Rand
	aliased map[string]bool
	g       map[string]any
	defined map[string]bool
	ok      bool
}

func (t *c07Text) mapping(name string, b *strings.Builder) {
	if t.defined[name] {
		t.ok = false // a second inline definition of the same anchor cannot be written
		return
	}
	t.defined[name] = true
	if t.aliased == nil || t.aliased[name] {
		b.WriteString("&" + name + " ")
	}
	b.WriteString("{")
	entries, _ := t.g[name].([]any)
	for i, e := range entries {
		if i > 0 {
			b.WriteString(", ")
		}
		em := e.(map[string]any)
		if m, _ := em["m"].(bool); m {
			b.WriteString("<<: ")
		} else {
			ks, _ := em["k"].(string)
			if tag, sp := c07Spell(ks, t.rng); t.spell && tag != "" {
				b.WriteString(sp)
			} else {
				b.Write(asciiJSON(em["k"]))
			}
			b.WriteString(": ")
		}
		t.value(em["v"].(map[string]any), b)
	}
	b.WriteString("}")
}

func (t *c07Text) value(v map[string]any, b *strings.Builder) {
	switch v["t"] {
	case "s":
		b.Write(asciiJSON(v["s"]))
	case "a":
		if !t.defined[v["n"].(string)] {
			t.ok = false
		}
		b.WriteString("*" + v["n"].(string) + " ")
	case "n":
		t.mapping(v["n"].(string), b)
	case "sd":
		if t.defined["\x00S"] {
			t.ok = false
			return
		}
		t.defined["\x00S"] = true
		b.WriteString("&S [")
		el, _ := t.g["S"].([]any)
		for i, x := range el {
			if i > 0 {
				b.WriteString(", ")
			}
			t.value(x.(map[string]any), b)
		}
		b.WriteString("]")
	case "sa":
		if !t.defined["\x00S"] {
			t.ok = false
		}
		b.WriteString("*S ")
	case "q":
		b.WriteString("[")
		el, _ := v["e"].([]any)
		for i, x := range el {
			if i > 0 {
				b.WriteString(", ")
			}
			t.value(x.(map[string]any), b)
		}
		b.WriteString("]")
	}
}

// c07ReuseAnchors renames anchors of the rendered text so that one name ("r") is defined again and again:
// YAML lets a later definition shadow an earlier one, and an alias refers to the latest definition before it. A
// definition takes the name "r" when no alias to the present holder of "r" follows it; the document's meaning
// (which node each alias refers to) is unchanged.
func c07ReuseAnchors(src string) string {
	type tok struct {
		pos, end int
		def      bool
		name     string
	}
	var toks []tok
	inq := false
	for i := 0; i < len(src); i++ {
		ch := src[i]
		if inq {
			if ch == '\\' {
				i++
			} else if ch == '"' {
				inq = false
			}
			continue
		}
		if ch == '"' {
			inq = true
			continue
		}
		if ch == '&' || ch == '*' {
			j := i + 1
			for j < len(src) && (src[j] == '_' || src[j] >= '0' && src[j] <= '9' || src[j] >= 'A' && src[j] <= 'Z' || src[j] >= 'a' && src[j] <= 'z') {
				j++
			}
			if j > i+1 {
				toks = append(toks, tok{i, j, ch == '&', src[i+1 : j]})
				i = j - 1
			}
		}
	}
	last := map[string]int{}
	for _, t := range toks {
		if !t.def {
			last[t.name] = t.pos
		}
	}
	ren := map[string]string{}
	holder := ""
	for _, t := range toks {
		if t.def && (holder == "" || last[holder] < t.pos) {
			holder = t.name
			ren[t.name] = "r"
		}
	}
	var sb strings.Builder
	at := 0
	for _, t := range toks {
		sb.WriteString(src[at : t.pos+1])
		if r, ok := ren[t.name]; ok {
			sb.WriteString(r)
		} else {
			sb.WriteString(t.name)
		}
		at = t.end
	}
	sb.WriteString(src[at:])
	return sb.String()
}

func toAV(x any) any {
	switch t := x.(type) {
	case *ordered.MapSA:
		kv := []any{}
		t.Range(func(k string, v any) error { kv = append(kv, []any{k, toAV(v)}); return nil })
		return obj{"t": "m", "kv": kv}
	case []any:
		e := []any{}
		for _, v := range t {
			e = append(e, toAV(v))
		}
		return obj{"t": "q", "e": e}
	case string:
		return avStr(t)
	case nil:
		return obj{"t": "z"}
	case bool:
		return obj{"t": "b", "v": t}
	case int:
		return obj{"t": "n", "v": fmt.Sprint(t)}
	case float64:
		return obj{"t": "n", "v": canonNum(t)}
	}
	return obj{"t": "s", "v": fmt.Sprintf("<%T>", x)}
}

// independent reports whether no container is shared between two places of the result.
func independent(x any, seen map[uintptr]bool) bool {
	switch t := x.(type) {
	case *ordered.MapSA:
		p := reflect.ValueOf(t).Pointer()
		if seen[p] {
			return false
		}
		seen[p] = true
		ok := true
		t.Range(func(_ string, v any) error {
			if !independent(v, seen) {
				ok = false
			}
			return nil
		})
		return ok
	case []any:
		if len(t) > 0 {
			p := reflect.ValueOf(t).Pointer()
			if seen[p] {
				return false
			}
			seen[p] = true
		}
		for _, v := range t {
			if !independent(v, seen) {
				return false
			}
		}
	}
	return true
}

// c07Poison: history. This process has just REJECTED documents (bad keys met half-way through a mapping, a value
// cycle). What a decode gives never depends on what was decoded - or refused - before it. Called right before the
// decode of a case that asks for it (never for a skipped mode: every event carries its own history).
func c07Poison() {
	// history: this process has just REJECTED documents (bad keys met half-way through a mapping, a value
	// cycle). What a decode gives never depends on what was decoded - or refused - before it
	// (the last ones are refused half-way through the keys of their ROOT mapping: nothing decoded after them
	// in this history could tidy up behind them)
	for _, src := range []string{"&a {x: 1, y: [*a ]}", "{x: {y: 1, 12: 2, ? {q: 1} : 2}}", "a: &a {x: 1, y: 2, ? *a : z}",
		"{y: 1, x: 2, ~: oops}", "{x: 1, y: 2, \"12\": 3, \"true\": 4, [q]: oops}"} {
		var n yaml.Node
		if err := yaml.Unmarshal([]byte(src), &n); err == nil {
			_, _ = ordered.DecodeYAML(&n)
			m := ordered.NewMap[string, any](0)
			if len(n.Content) > 0 {
				_ = m.UnmarshalYAML(n.Content[0])
			}
		}
	}
}

// c07Decode performs one real decode of the case in the given mode.
func c07Decode(c obj, mode string) obj {
	g := asMap(c["g"])
	root, _ := c["root"].(string)
	seed := int64(1)
	if r, ok := c["rot"].(json.Number); ok {
		seed, _ = r.Int64()
	}
	ev := obj{"mode": mode, "err": false, "result": obj{"t": "z"}, "indep": true, "timeout": false, "crash": false, "skipped": false}
	type res struct {
		v   any
		err error
	}
	var run func() res
	switch mode {
	case "node", "mapunmarshal":
		b := &c07Builder{g: g, nodes: map[string]*yaml.Node{}, keyAnc: map[string]*yaml.Node{}, akeys: c["akeys"] == true, spell: c["spell"] == true, dupanc: c["dupanc"] == true, rng: newRand(seed, "c07"),
			aliased: c07Aliased(g)}
		rn := b.node(root)
		if mode == "node" {
			doc := &yaml.Node{Kind: yaml.DocumentNode, Content: []*yaml.Node{rn}}
			run = func() res { v, err := ordered.DecodeYAML(doc); return res{v, err} }
		} else {
			run = func() res {
				m := ordered.NewMap[string, any](0)
				err := m.UnmarshalYAML(rn)
				return res{m, err}
			}
		}
	case "text", "parse":
		t := &c07Text{g: g, defined: map[string]bool{}, ok: true, aliased: c07Aliased(g), spell: c["spell"] == true, rng: newRand(seed, "c07text")}
		var sb strings.Builder
		t.mapping(root, &sb)
		if !t.ok {
			ev["skipped"] = true
			return ev
		}
		src := sb.String()
		if c["dupanc"] == true {
			src = c07ReuseAnchors(src)
		}
		ev["text"] = src
		// keyval: next to the graph, anchored NON-STRING scalars sit in key position (an int written in hex, a bool, a float) and
		// aliases to them are used as VALUES further down: each alias is a copy of the anchored scalar - 16, true, 2.5 - whatever
		// the mapping made of its key
		kvPre, kvPost := "", ""
		if c["keyval"] == true {
			kvPre, kvPost = "kvdef: {&kv 0x10 : v, &kb True : w, &kf 2.5 : x}, ", ", kvuse: [*kv , *kb , *kf ], kvmap: {n: *kv }"
		}
		kvOK := func(get func(string) (any, bool)) bool {
			if c["keyval"] != true {
				return true
			}
			use, ok1 := get("kvuse")
			km, ok2 := get("kvmap")
			def, ok3 := get("kvdef")
			if !ok1 || !ok2 || !ok3 {
				return false
			}
			ub, _ := json.Marshal(use)
			kb, _ := json.Marshal(km)
			db, _ := json.Marshal(def)
			return string(ub) == "[16,true,2.5]" && string(kb) == `{"n":16}` && string(db) == `{"16":"v","true":"w","2.5e+00":"x"}`
		}
		if mode == "text" {
			run = func() res {
				var n yaml.Node
				full := "{" + kvPre + "graph: " + src + kvPost + "}"
				if err := yaml.Unmarshal([]byte(full), &n); err != nil {
					panic("driver: yaml.v3 rejects the rendered text: " + err.Error() + "\n" + full)
				}
				v, err := ordered.DecodeYAML(&n)
				if err != nil {
					return res{nil, err}
				}
				m, ok := v.(*ordered.MapSA)
				if !ok {
					return res{nil, fmt.Errorf("the document did not decode to a mapping")}
				}
				gv, _ := m.Get("graph")
				if !kvOK(m.Get) {
					return res{gv, fmt.Errorf("keyval: an alias of an anchored scalar key is not a copy of that scalar: %v", v)}
				}
				return res{gv, nil}
			}
		} else {
			// the graph under an unknown top-level key of a pipeline
			run = func() res {
				p, err := pipeline.Parse(strings.NewReader("{steps: [], " + kvPre + "graph: " + src + kvPost + "}"))
				if err != nil && !warning.Is(err) {
					return res{nil, err}
				}
				v, ok := p.RemainingFields["graph"]
				if !ok {
					return res{nil, fmt.Errorf("graph key lost")}
				}
				if !kvOK(func(k string) (any, bool) { x, ok := p.RemainingFields[k]; return x, ok }) {
					return res{v, fmt.Errorf("keyval: an alias of an anchored scalar key is not a copy of that scalar")}
				}
				return res{v, nil}
			}
		}
	}
	if c["poison"] == true {
		c07Poison()
	}
	done := make(chan res, 1)
	var pmsg string
	panicked := false
	go func() {
		defer func() {
			if r := recover(); r != nil {
				panicked, pmsg = true, fmt.Sprint(r)
				done <- res{}
			}
		}()
		done <- run()
	}()
	select {
	case r := <-done:
		if panicked {
			if strings.HasPrefix(pmsg, "driver:") {
				fatal("%s", pmsg)
			}
			ev["panic"], ev["panicmsg"] = true, pmsg
			return ev
		}
		ev["err"] = r.err != nil
		if r.err != nil {
			ev["errmsg"] = r.err.Error()
		} else {
			ev["result"] = toAV(r.v)
			ev["indep"] = independent(r.v, map[uintptr]bool{})
		}
	case <-time.After(10 * time.Second):
		ev["timeout"] = true
	}
	return ev
}

var c07Modes = []string{"node", "text", "mapunmarshal", "parse"}

func runC07(args []string) {
	fl := parseFlags(args)
	if fl.str("worker", "") != "" {
		// child mode: one {c, mode} request per line, one event per line. The stack limit is lowered so that
		// runaway recursion dies in milliseconds (the graphs are tiny: legitimate recursion is shallow).
		debug.SetMaxStack(64 << 20)
		serveLines(func(line string) []byte {
			var req obj
			d := json.NewDecoder(strings.NewReader(line))
			d.UseNumber()
			if err := d.Decode(&req); err != nil {
				fatal("child: %v", err)
			}
			return asciiJSON(c07Decode(asMap(req["c"]), req["mode"].(string)))
		})
		return
	}
	worker := &lineWorker{args: []string{"c07", "-worker", "1"}}
	defer worker.stop()
	tw := newTraceWriter(fl.str("out", ""))
	defer tw.close()
	samples := []any{}
	cyc, merges := 0, 0
	deaths, abandoned := 0, 0
	one := func(c obj) {
		isCyc, _ := c["cyc"].(bool)
		if isCyc {
			cyc++
		}
		for gk, es := range asMap(c["g"]) {
			if gk == "S" {
				continue // (a sequence of values, not a mapping's entries)
			}
			for _, e := range es.([]any) {
				if m, _ := e.(map[string]any)["m"].(bool); m {
					merges++
				}
			}
		}
		modes := c07Modes
		if m := fl.str("mode", ""); m != "" {
			modes = []string{m}
		}
		if cm, ok := c["mode"].(string); ok && cm != "" {
			modes = []string{cm} // a replayed event: the case names its own mode, so that a replayed HISTORY is the original sequence of decodes
		}
		for _, mode := range modes {
			var ev obj
			// every decode runs in the worker child: also a graph WITHOUT a value cycle may send a broken decoder
			// into unbounded recursion (a merge cycle), and that must cost the child, not this driver
			viaChild := true
			if viaChild && deaths >= 20 {
				// twenty inputs have already killed or hung the decoder: that is reported; the remaining
				// child-bound inputs are not worth a process death each
				abandoned++
				continue
			}
			if viaChild {
				// decode in a child process: a stack overflow kills only the child
				blank := obj{"mode": mode, "err": false, "result": obj{"t": "z"}, "indep": true, "timeout": false, "crash": false, "skipped": false}
				line, status := worker.call(asciiJSON(obj{"c": c, "mode": mode}), 30*time.Second)
				switch status {
				case "crash":
					blank["crash"] = true
					ev = blank
					deaths++
				case "timeout":
					blank["timeout"] = true
					ev = blank
					deaths++
				default:
					d := json.NewDecoder(strings.NewReader(line))
					d.UseNumber()
					if e := d.Decode(&ev); e != nil {
						fatal("child output: %v", e)
					}
				}
			} else {
				ev = c07Decode(c, mode)
			}
			if ev["skipped"] == true {
				continue
			}
			if _, ok := ev["panic"]; !ok {
				ev["panic"] = false
			}
			ev["c"] = c
			if len(samples) < 3 && tw.n%997 == 3 {
				samples = append(samples, obj{"graph": c["g"], "mode": mode, "text": ev["text"], "err": ev["err"], "result": ev["result"]})
			}
			delete(ev, "text")
			tw.emit(ev)
		}
	}
	if cf := fl.str("cases", ""); cf != "" {
		readNDJSON(cf, func(n int, c obj) {
			if _, ok := c["root"]; !ok {
				c["root"] = "R"
			}
			one(c)
		})
	} else {
		rng := newRand(int64(fl.int("seed", 1)), "c07gen")
		for i, n := 0, fl.int("n", 200); i < n; i++ {
			c := c07RandomCase(rng)
			if i == 3 {
				c = c07Ladder(26 + rng.Intn(8))
			}
			c["rot"] = i
			one(normalize(c))
		}
	}
	writeSummary(fl.str("summary", ""), obj{"events": tw.n, "cyclic_graphs": cyc, "merge_entries": merges, "child_deaths": deaths, "abandoned_after_deaths": abandoned, "samples": samples})
}

// c07RandomCase: a DAG of 6..40 mapping nodes (aliases to lower-numbered
// nodes, inline definitions, sequences, merges through aliases / sequences /
// nested sequences) plus 0..3 back-edges (self and mutual cycles through
// values, sequences and merges). Expansion size is bounded.
func c07RandomCase(rng *rand.Rand) obj {
	for {
		n := 6 + rng.Intn(35)
		names := make([]string, n)
		for i := range names {
			names[i] = fmt.Sprintf("N%d", i)
		}
		g := obj{}
		keys := []string{"x", "y", "z", "w", "k1", "k2", "true", "12", ""}
		inlineUsed := map[int]bool{}
		alias := func(i int) obj { // to a lower-numbered node (a DAG edge)
			return obj{"t": "a", "n": names[rng.Intn(i)]}
		}
		var val func(i, depth int) obj
		val = func(i, depth int) obj {
			r := rng.Intn(10)
			switch {
			case r < 4 || i == 0:
				return obj{"t": "s", "s": fmt.Sprintf("s%d_%d", i, rng.Intn(1000))}
			case r < 7:
				return alias(i)
			case r < 8 && depth < 2:
				e := []any{}
				for j, m := 0, rng.Intn(3); j < m; j++ {
					e = append(e, val(i, depth+1))
				}
				return obj{"t": "q", "e": e}
			default:
				// an inline definition of a lower node that is defined nowhere else
				j := rng.Intn(i)
				if !inlineUsed[j] {
					inlineUsed[j] = true
					return obj{"t": "n", "n": names[j]}
				}
				return alias(i)
			}
		}
		mergeVal := func(i int) obj {
			switch rng.Intn(4) {
			case 0:
				return obj{"t": "q", "e": []any{alias(i), alias(i)}}
			case 1:
				return obj{"t": "q", "e": []any{obj{"t": "q", "e": []any{alias(i)}}, alias(i)}}
			default:
				return alias(i)
			}
		}
		for i := 0; i < n; i++ {
			es := []any{}
			rng.Shuffle(len(keys), func(a, b int) { keys[a], keys[b] = keys[b], keys[a] })
			nk := 0
			for j, m := 0, rng.Intn(5); j < m; j++ {
				if i > 0 && rng.Intn(4) == 0 {
					es = append(es, obj{"m": true, "k": "<<", "v": mergeVal(i)})
				} else {
					es = append(es, obj{"m": false, "k": keys[nk], "v": val(i, 0)})
					nk++
				}
			}
			g[names[i]] = es
		}
		// back-edges
		cyclic := false
		for b, m := 0, rng.Intn(4); b < m && rng.Intn(2) == 0; b++ {
			from := rng.Intn(n)
			to := from + rng.Intn(n-from) // to >= from: closes a cycle if `to` reaches `from`
			es := g[names[from]].([]any)
			var e obj
			switch rng.Intn(3) {
			case 0:
				e = obj{"m": true, "k": "<<", "v": obj{"t": "a", "n": names[to]}}
			case 1:
				e = obj{"m": false, "k": "back" + fmt.Sprint(b), "v": obj{"t": "a", "n": names[to]}}
			default:
				e = obj{"m": false, "k": "backq" + fmt.Sprint(b), "v": obj{"t": "q", "e": []any{obj{"t": "s", "s": "q"}, obj{"t": "a", "n": names[to]}}}}
			}
			g[names[from]] = append(es, e)
			cyclic = true
		}
		root := names[n-1]
		if !cyclic && c07Size(g, root, map[string]int{}) > 20000 {
			continue
		}
		if cyclic && c07Size(g, root, map[string]int{}) > 2000 {
			continue
		}
		g["S"] = []any{}
		return obj{"g": g, "root": root, "akeys": rng.Intn(2) == 0, "spell": rng.Intn(2) == 0, "dupanc": rng.Intn(3) == 0, "keyval": rng.Intn(3) == 0, "poison": rng.Intn(4) == 0, "child": cyclic, "cyc": false}
	}
}

// c07Size: expansion size ignoring edges that close a cycle (memoised; nodes in
// progress count 1).
func c07Size(g obj, name string, memo map[string]int) int {
	if v, ok := memo[name]; ok {
		return v
	}
	memo[name] = 1
	var sz func(v obj) int
	sz = func(v obj) int {
		switch v["t"] {
		case "a", "n":
			return c07Size(g, v["n"].(string), memo)
		case "q":
			t := 1
			for _, x := range v["e"].([]any) {
				t += sz(x.(obj))
			}
			return t
		}
		return 1
	}
	total := 1
	for _, e := range g[name].([]any) {
		total += sz(e.(obj)["v"].(obj))
		if total > 1<<30 {
			break
		}
	}
	memo[name] = total
	return total
}

// c07Aliased: the mapping names that at least one alias refers to.
func c07Aliased(g map[string]any) map[string]bool {
	out := map[string]bool{}
	var walk func(v map[string]any)
	walk = func(v map[string]any) {
		switch v["t"] {
		case "a":
			out[v["n"].(string)] = true
		case "q":
			for _, x := range v["e"].([]any) {
				walk(x.(map[string]any))
			}
		}
	}
	for gk, es := range g {
		for _, e := range es.([]any) {
			if gk == "S" {
				walk(e.(map[string]any))
			} else {
				walk(e.(map[string]any)["v"].(map[string]any))
			}
		}
	}
	return out
}


// c07Ladder: k mappings L0..Lk, each merging the next one TWICE (`<<: [&L(i+1) {...}, *L(i+1)]`: once by its inline
// definition, once by alias), the innermost merging L0 again (a merge cycle). Every mapping is reachable along 2^i merge
// paths; a decoder that remembers what it has merged walks each once. The document and its expansion are of size k.
func c07Ladder(k int) obj {
	g := obj{"S": []any{}}
	want := []any{}
	for i := 0; i <= k; i++ {
		name := fmt.Sprintf("L%d", i)
		es := []any{obj{"m": false, "k": fmt.Sprintf("k%d", i), "v": obj{"t": "s", "s": fmt.Sprintf("v%d", i)}}}
		if i < k {
			next := fmt.Sprintf("L%d", i+1)
			es = append(es, obj{"m": true, "k": "<<", "v": obj{"t": "q", "e": []any{obj{"t": "n", "n": next}, obj{"t": "a", "n": next}}}})
		} else {
			es = append(es, obj{"m": true, "k": "<<", "v": obj{"t": "a", "n": "L0"}})
		}
		g[name] = es
		want = append(want, fmt.Sprintf("k%d", i))
	}
	return obj{"g": g, "root": "L0", "akeys": false, "spell": false, "child": true, "cyc": false, "timeonly": true, "wantkeys": want}
}
