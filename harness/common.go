// Package main is the conformance driver of the /verif framework. It is copied
// into a scratch copy of the repository (internal/verifharness) so that it is
// compiled against the working tree under test, with -tags verif.
//
// Every sub-command reads abstract cases (exported by TLC from the TLA+
// specification, or generated here from VERIF_SEED), drives the REAL library
// API, and writes one ND-JSON event per call for TLC to validate against the
// specification. The driver never decides a verdict.
package main

import (
	"bufio"
	"bytes"
	"encoding/json"
	"fmt"
	"io"
	"math/rand"
	"os"
	"os/exec"
	"strings"
	"time"
	"unicode/utf8"
)

type obj = map[string]any

// asciiJSON marshals v as JSON with every non-ASCII rune escaped (\uXXXX), no
// HTML escaping, so TLC's Json module reads it byte for byte.
func asciiJSON(v any) []byte {
	var b bytes.Buffer
	enc := json.NewEncoder(&b)
	enc.SetEscapeHTML(false)
	if err := enc.Encode(v); err != nil {
		panic(fmt.Sprintf("asciiJSON: %v", err))
	}
	raw := bytes.TrimRight(b.Bytes(), "\n")
	allASCII := true
	for _, c := range raw {
		if c >= 0x80 {
			allASCII = false
			break
		}
	}
	if allASCII {
		return raw
	}
	var out bytes.Buffer
	for len(raw) > 0 {
		r, sz := utf8.DecodeRune(raw)
		raw = raw[sz:]
		if r < 0x80 {
			out.WriteByte(byte(r))
			continue
		}
		if r >= 0x10000 {
			r -= 0x10000
			fmt.Fprintf(&out, "\\u%04x\\u%04x", 0xd800+(r>>10), 0xdc00+(r&0x3ff))
		} else {
			fmt.Fprintf(&out, "\\u%04x", r)
		}
	}
	return out.Bytes()
}

// traceWriter writes ND-JSON events.
type traceWriter struct {
	w *bufio.Writer
	f *os.File
	n int
}

func newTraceWriter(path string) *traceWriter {
	f, err := os.Create(path)
	if err != nil {
		fatal("create %s: %v", path, err)
	}
	return &traceWriter{w: bufio.NewWriterSize(f, 1<<20), f: f}
}

func (t *traceWriter) emit(ev any) {
	t.w.Write(asciiJSON(ev))
	t.w.WriteByte('\n')
	t.n++
}

func (t *traceWriter) close() {
	t.w.Flush()
	t.f.Close()
}

func fatal(f string, a ...any) {
	fmt.Fprintf(os.Stderr, "driver: "+f+"\n", a...)
	os.Exit(2)
}

// readNDJSON calls fn with every non-empty line of path decoded into obj.
func readNDJSON(path string, fn func(line int, o obj)) {
	f, err := os.Open(path)
	if err != nil {
		fatal("open %s: %v", path, err)
	}
	defer f.Close()
	r := bufio.NewReaderSize(f, 1<<20)
	n := 0
	for {
		line, err := r.ReadBytes('\n')
		if len(bytes.TrimSpace(line)) > 0 {
			n++
			var o obj
			d := json.NewDecoder(bytes.NewReader(line))
			d.UseNumber()
			if e := d.Decode(&o); e != nil {
				fatal("%s line %d: %v", path, n, e)
			}
			fn(n, o)
		}
		if err == io.EOF {
			return
		}
		if err != nil {
			fatal("read %s: %v", path, err)
		}
	}
}

func writeSummary(path string, s any) {
	if path == "" {
		return
	}
	if err := os.WriteFile(path, append(asciiJSON(s), '\n'), 0o644); err != nil {
		fatal("write %s: %v", path, err)
	}
}

func newRand(seed int64, salt string) *rand.Rand {
	h := int64(1469598103934665603)
	for _, c := range salt {
		h ^= int64(c)
		h *= 1099511628211
	}
	return rand.New(rand.NewSource(seed*7919 + h))
}

func strs(a any) []string {
	l, _ := a.([]any)
	out := make([]string, len(l))
	for i, x := range l {
		out[i], _ = x.(string)
	}
	return out
}

// flag helpers (tiny, to avoid global flag state across sub-commands)
type flags map[string]string

func parseFlags(args []string) flags {
	f := flags{}
	for i := 0; i < len(args); i++ {
		a := args[i]
		if !strings.HasPrefix(a, "-") {
			fatal("unexpected argument %q", a)
		}
		a = strings.TrimLeft(a, "-")
		if k, v, ok := strings.Cut(a, "="); ok {
			f[k] = v
			continue
		}
		if i+1 < len(args) {
			f[a] = args[i+1]
			i++
		} else {
			f[a] = "true"
		}
	}
	return f
}

func (f flags) str(k, def string) string {
	if v, ok := f[k]; ok {
		return v
	}
	return def
}

func (f flags) int(k string, def int) int {
	if v, ok := f[k]; ok {
		var n int
		if _, err := fmt.Sscan(v, &n); err != nil {
			fatal("flag -%s: %v", k, err)
		}
		return n
	}
	return def
}

// orderedJSON is a JSON object that marshals its pairs in the given order.
type orderedJSON [][2]any

func (o orderedJSON) MarshalJSON() ([]byte, error) {
	var b bytes.Buffer
	b.WriteByte('{')
	for i, p := range o {
		if i > 0 {
			b.WriteByte(',')
		}
		k, _ := p[0].(string)
		b.Write(utf8JSON(k))
		b.WriteByte(':')
		b.Write(utf8JSON(p[1]))
	}
	b.WriteByte('}')
	return b.Bytes(), nil
}

// normalize round-trips a generated case through JSON so that it has exactly
// the dynamic types a case read from a file has.
func normalize(c obj) obj {
	var out obj
	d := json.NewDecoder(bytes.NewReader(asciiJSON(c)))
	d.UseNumber()
	if err := d.Decode(&out); err != nil {
		fatal("normalize: %v", err)
	}
	return out
}

// utf8JSON marshals v as JSON keeping non-ASCII characters as UTF-8 (for
// documents handed to the parser: YAML does not accept JSON's surrogate-pair
// escapes).
func utf8JSON(v any) []byte {
	var b bytes.Buffer
	enc := json.NewEncoder(&b)
	enc.SetEscapeHTML(false)
	if err := enc.Encode(v); err != nil {
		panic(fmt.Sprintf("utf8JSON: %v", err))
	}
	return bytes.TrimRight(b.Bytes(), "\n")
}


// lineWorker: a persistent child process of this driver that answers one line per
// request line. A fatal error in the code under test (stack overflow) kills only the
// child: the parent observes it as a crash of the request in flight and starts a new
// child for the next one. A silent child is killed at the deadline (a hang).
type lineWorker struct {
	args []string
	cmd  *exec.Cmd
	in   io.WriteCloser
	out  *bufio.Reader
}

func (w *lineWorker) start() {
	w.cmd = exec.Command(os.Args[0], w.args...)
	in, err := w.cmd.StdinPipe()
	if err != nil {
		fatal("child pipe: %v", err)
	}
	outp, err := w.cmd.StdoutPipe()
	if err != nil {
		fatal("child pipe: %v", err)
	}
	w.cmd.Stderr = io.Discard
	if err := w.cmd.Start(); err != nil {
		fatal("child start: %v", err)
	}
	w.in, w.out = in, bufio.NewReaderSize(outp, 1<<22)
}

func (w *lineWorker) stop() {
	if w.cmd != nil {
		w.cmd.Process.Kill()
		w.cmd.Wait()
		w.cmd = nil
	}
}

// call sends one request line; status is "ok", "crash" or "timeout".
func (w *lineWorker) call(req []byte, deadline time.Duration) (string, string) {
	if w.cmd == nil {
		w.start()
	}
	w.in.Write(append(append([]byte{}, req...), '\n'))
	type ans struct {
		line string
		err  error
	}
	ch := make(chan ans, 1)
	out := w.out
	go func() { l, err := out.ReadString('\n'); ch <- ans{l, err} }()
	select {
	case a := <-ch:
		if a.err != nil || len(a.line) == 0 {
			w.stop()
			return "", "crash"
		}
		return a.line, "ok"
	case <-time.After(deadline):
		w.stop()
		return "", "timeout"
	}
}

// serveLines is the child side: one answer line per request line.
func serveLines(handle func(line string) []byte) {
	in := bufio.NewReaderSize(os.Stdin, 1<<22)
	out := bufio.NewWriter(os.Stdout)
	for {
		line, err := in.ReadString('\n')
		if len(line) > 1 {
			out.Write(handle(strings.TrimRight(line, "\n")))
			out.WriteByte('\n')
			out.Flush()
		}
		if err != nil {
			return
		}
	}
}
