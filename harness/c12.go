package main

import (
	"encoding/json"
	"fmt"
	"math/rand"
	"regexp"
	"strings"

	pipeline "github.com/buildkite/go-pipeline"
	"github.com/buildkite/go-pipeline/warning"
)

// C12: matrix interpolation scope. A case assigns token strings to position
// classes of one command step and gives a VALID permutation of the step's
// matrix. Before/after are the marshalled step.

// the documented token grammar (the harness's own copy, used only to self-check
// that a generated string contains exactly the tokens its token form says)
var c12TokenRE = regexp.MustCompile(`\{\{\s*matrix(\.[\w-\.]+)?\s*\}\}`)

func mSpellTok(x obj) string {
	if x["t"] == "tok" {
		d, _ := x["d"].(string)
		a, _ := x["a"].(string)
		b, _ := x["b"].(string)
		s := "{{" + a + "matrix"
		if d != "" {
			s += "." + d
		}
		return s + b + "}}"
	}
	return x["s"].(string)
}

func mSpell(toks []any) string {
	var b strings.Builder
	for _, t := range toks {
		b.WriteString(mSpellTok(t.(map[string]any)))
	}
	return b.String()
}

func c12SelfCheck(toks []any, spelled string) {
	want := []string{}
	for _, t := range toks {
		tm := t.(map[string]any)
		if tm["t"] == "tok" {
			want = append(want, mSpellTok(tm))
		}
	}
	got := c12TokenRE.FindAllString(spelled, -1)
	if fmt.Sprint(got) != fmt.Sprint(want) {
		fatal("harness: token catalogue not closed: %q contains tokens %q, token form says %q", spelled, got, want)
	}
}

var c12Classes = []string{"command", "label", "key", "envname", "envval", "pluginsrc", "plugincfgkey", "plugincfgval",
	"unkkey", "unkval", "matrixval", "adjwith", "sigvalue"}

// c12Doc builds the step document from class -> string assignments.
func c12Doc(assign map[string]string, p map[string]string, rng *rand.Rand, zerodim int, alias bool, twins []string) (string, bool) {
	S := func(class string) string {
		if s, ok := assign[class]; ok {
			return s
		}
		return "plain-" + class
	}
	step := [][2]any{
		{"command", S("command")}, {"label", S("label")}, {"key", S("key")},
		{"env", orderedJSON([][2]any{{S("envname"), S("envval")}, {"OTHER", "ov"}})},
		{"plugins", []any{orderedJSON([][2]any{{S("pluginsrc"), orderedJSON([][2]any{{S("plugincfgkey"), S("plugincfgval")}, {"n", []any{S("plugincfgval"), 7, nil}}})}}), S("pluginsrc") + "-bare", orderedJSON([][2]any{{"./scalar-config", S("plugincfgval")}})}},
		{S("unkkey"), orderedJSON([][2]any{{"deep", []any{S("unkval"), orderedJSON([][2]any{{S("unkkey") + "2", S("unkval")}})}}})},
		{"signature", orderedJSON([][2]any{{"algorithm", "EdDSA"}, {"signed_fields", []any{"command"}}, {"value", S("sigvalue")}})},
	}
	if len(twins) == 2 {
		// twin keys: two token-only keys side by side, where the FIRST one's dimension has a value that is spelled like the
		// second key. Every key is replaced once, from its written form: `{{matrix.d2}}` (the first key's result) stays, the
		// written `{{matrix.d2}}` becomes p[d2] - at the step's own level (a Go map), in a plugin config (a Go map) and in a
		// nested unknown mapping (an ordered map)
		t1, t2 := "{{matrix."+twins[0]+"}}", "{{matrix."+twins[1]+"}}"
		step = append(step, [2]any{t1, "first"}, [2]any{t2, "second"},
			[2]any{"twins_nested", orderedJSON([][2]any{{"z", 0}, {t1, 1}, {t2, 2}})})
		for i := range step {
			if step[i][0] == "plugins" {
				step[i][1] = append(step[i][1].([]any), orderedJSON([][2]any{{"./twin-plugin", orderedJSON([][2]any{{t2, "second"}, {t1, "first"}})}}))
			}
		}
	}
	hasMatrix := len(p) > 0
	if hasMatrix {
		dims := sortedKeys(p)
		setup := [][2]any{}
		with := [][2]any{}
		for i, d := range dims {
			vals := []any{"other", p[d]}
			if i == 0 {
				vals = append(vals, S("matrixval"))
			}
			rng.Shuffle(len(vals), func(a, b int) { vals[a], vals[b] = vals[b], vals[a] })
			setup = append(setup, [2]any{d, vals})
			if i == 0 {
				with = append(with, [2]any{d, S("adjwith")})
			} else {
				with = append(with, [2]any{d, "other"})
			}
		}
		var m any
		if len(dims) == 1 && dims[0] == "" {
			m = orderedJSON([][2]any{{"setup", setup[0][1]}, {"adjustments", []any{orderedJSON([][2]any{{"with", S("adjwith")}, {"soft_fail", true}})}}})
		} else {
			m = orderedJSON([][2]any{{"setup", orderedJSON(setup)}, {"adjustments", []any{orderedJSON([][2]any{{"with", orderedJSON(with)}})}}})
		}
		step = append(step, [2]any{"matrix", m})
	}
	if !hasMatrix && zerodim > 0 {
		// an empty permutation against a matrix that EXISTS but has no dimensions: still "changes nothing"
		step = append(step, [2]any{"matrix", []any{nil, orderedJSON{}, orderedJSON{{"setup", orderedJSON{}}}, orderedJSON{{"setup", orderedJSON{}}, {"adjustments", []any{}}}}[zerodim]})
	}
	rng.Shuffle(len(step), func(i, j int) { step[i], step[j] = step[j], step[i] })
	if alias {
		// YAML: the unknown field's value carries an anchor and is written twice more through aliases (once directly,
		// once inside a list), behind everything else: three occurrences of the same text, each expanded once
		step = append(step, [2]any{S("unkkey") + "_again", "\x00ALIAS"}, [2]any{S("unkkey") + "_third", []any{"\x00ALIAS", "\x00ALIAS"}})
		var sub string
		for _, kv := range step {
			if kv[0] == S("unkkey") {
				sub = string(asciiJSON(kv[1]))
			}
		}
		full := string(asciiJSON(obj{"steps": []any{orderedJSON(step)}}))
		if strings.Count(full, sub) != 1 {
			fatal("c12Doc: the unknown field's text is not unique in the document")
		}
		full = strings.Replace(full, sub, "&r "+sub, 1)
		return strings.ReplaceAll(full, `"\u0000ALIAS"`, "*r "), hasMatrix
	}
	return string(asciiJSON(obj{"steps": []any{orderedJSON(step)}})), hasMatrix
}

func c12Event(c obj) obj {
	assign := map[string]string{}
	twins := strs(c["twins"])
	strs := []any{}
	for cl, v := range asMap(c["assign"]) {
		vm := v.(map[string]any)
		toks, _ := vm["toks"].([]any)
		sp, _ := vm["spelled"].(string)
		c12SelfCheck(toks, sp)
		assign[cl] = sp
		strs = append(strs, []any{sp, toks})
		if cl == "pluginsrc" { // the same source once more as a plugin WITHOUT a config
			strs = append(strs, []any{sp + "-bare", append(append([]any{}, toks...), obj{"t": "lit", "s": "-bare"})})
		}
		if cl == "unkkey" { // the nested second key
			strs = append(strs, []any{sp + "2", append(append([]any{}, toks...), obj{"t": "lit", "s": "2"})})
			if c["alias"] == true {
				strs = append(strs, []any{sp + "_again", append(append([]any{}, toks...), obj{"t": "lit", "s": "_again"})})
				strs = append(strs, []any{sp + "_third", append(append([]any{}, toks...), obj{"t": "lit", "s": "_third"})})
			}
		}
	}
	p := map[string]string{}
	for k, v := range asMap(c["p"]) {
		p[k], _ = v.(string)
	}
	rot := int64(1)
	if r, ok := c["rot"].(json.Number); ok {
		rot, _ = r.Int64()
	}
	zerodim := 0
	if z, ok := c["zerodim"].(json.Number); ok {
		z64, _ := z.Int64()
		zerodim = int(z64)
	}
	for _, d := range twins {
		strs = append(strs, []any{"{{matrix." + d + "}}", []any{obj{"t": "tok", "d": d, "a": "", "b": ""}}})
	}
	src, _ := c12Doc(assign, p, newRand(rot, "c12doc"), zerodim, c["alias"] == true, twins)
	ev := obj{"c": c, "p": c["p"], "strings": strs}
	pn, msg := guarded(func() {
		pl, err := pipeline.Parse(strings.NewReader(src))
		if err != nil && !warning.Is(err) {
			panic("driver: document does not parse: " + err.Error() + "\n" + src)
		}
		cs, ok := pl.Steps[0].(*pipeline.CommandStep)
		if !ok {
			panic(fmt.Sprintf("driver: not a command step (%T): %v\n%s", pl.Steps[0], err, src))
		}
		before, err := json.Marshal(cs)
		if err != nil {
			panic("driver: marshal before: " + err.Error())
		}
		if len(p) >= 2 && ((uint64(rot)*2654435761)>>12)%2 == 0 {
			// history: ANOTHER step was interpolated just before, with a one-dimension permutation whose value spells out
			// this permutation's remaining dimensions ({os: "linux ver:1.2"} before {os: linux, ver: 1.2}) - a different permutation
			dims := sortedKeys(asMap(c["p"]))
			dv := p[dims[0]]
			for _, d := range dims[1:] {
				dv += " " + d + ":" + p[d]
			}
			tok := "{{matrix." + dims[0] + "}}"
			if dims[0] == "" {
				tok = "{{matrix}}"
			}
			decoy := &pipeline.CommandStep{Command: "decoy " + tok, Matrix: &pipeline.Matrix{Setup: pipeline.MatrixSetup{dims[0]: {dv}}}}
			if derr := decoy.InterpolateMatrixPermutation(pipeline.MatrixPermutation{dims[0]: dv}); derr != nil || decoy.Command != "decoy "+dv {
				panic(fmt.Sprintf("the step interpolated before this one came out wrong: %q err=%v", decoy.Command, derr))
			}
		}
		ierr := cs.InterpolateMatrixPermutation(pipeline.MatrixPermutation(p))
		after, err := json.Marshal(cs)
		if err != nil {
			panic("marshal after: " + err.Error())
		}
		if ierr != nil && !strings.Contains(ierr.Error(), "unknown matrix tokens") {
			panic("driver: the permutation was meant to be valid but validation said: " + ierr.Error() + "\n" + src)
		}
		bav, _ := avFromJSON(before)
		aav, _ := avFromJSON(after)
		ev["before"], ev["after"], ev["err"] = bav, aav, ierr != nil
		if ierr != nil {
			ev["errmsg"] = ierr.Error()
		}
		ev["doc"] = src
	})
	ev["panic"] = pn
	if pn {
		if strings.HasPrefix(msg, "driver:") {
			fatal("%s", msg)
		}
		ev["panicmsg"] = msg
		ev["before"], ev["after"], ev["err"] = obj{"t": "z"}, obj{"t": "z"}, false
	}
	return ev
}

func runC12(args []string) {
	fl := parseFlags(args)
	tw := newTraceWriter(fl.str("out", ""))
	defer tw.close()
	samples := []any{}
	ntok := 0
	add := func(ev obj) {
		for _, s := range ev["strings"].([]any) {
			for _, t := range s.([]any)[1].([]any) {
				if tm, ok := t.(map[string]any); ok && tm["t"] == "tok" {
					ntok++
				} else if to, ok := t.(obj); ok && to["t"] == "tok" {
					ntok++
				}
			}
		}
		if len(samples) < 3 && tw.n%701 == 5 {
			samples = append(samples, obj{"document": ev["doc"], "permutation": ev["p"], "err": ev["err"]})
		}
		delete(ev, "doc")
		tw.emit(ev)
	}
	if cf := fl.str("cases", ""); cf != "" {
		readNDJSON(cf, func(n int, c obj) {
			if _, ok := c["assign"]; !ok {
				// a TLC-exported (class, toks, p) triple: one class gets the string
				// frame the string so that it is a path-like plugin source / never empty after replacement
				cl := c["class"].(string)
				toks := append([]any{obj{"t": "lit", "s": "./p-"}}, c["toks"].([]any)...)
				toks = append(toks, obj{"t": "lit", "s": "#" + cl})
				sp := "./p-" + c["spelled"].(string) + "#" + cl
				c = normalize(obj{"assign": obj{cl: obj{"toks": toks, "spelled": sp}}, "p": c["p"], "rot": n, "alias": n%3 == 1})
			}
			add(c12Event(c))
		})
	} else {
		rng := newRand(int64(fl.int("seed", 1)), "c12gen")
		for i, n := 0, fl.int("n", 500); i < n; i++ {
			c := c12RandomCase(rng)
			c["rot"] = i
			add(c12Event(normalize(c)))
		}
	}
	writeSummary(fl.str("summary", ""), obj{"events": tw.n, "tokens": ntok, "samples": samples})
}

// c12RandomCase: every class gets a random mix of tokens, near-misses and text;
// dimension names over the documented alphabet; values that look like tokens.
func c12RandomCase(rng *rand.Rand) obj {
	dimPool := []string{"a", "b", "os", ".os", ".", "a.b", "a-b", "_", "go_1.22", "X9", "-", "os."}
	var dims []string
	switch rng.Intn(5) {
	case 0:
		dims = []string{""}
	case 1:
		dims = nil // no matrix, empty permutation
	default:
		rng.Shuffle(len(dimPool), func(i, j int) { dimPool[i], dimPool[j] = dimPool[j], dimPool[i] })
		dims = append([]string{}, dimPool[:1+rng.Intn(3)]...)
	}
	valPool := []string{"linux", "1.22", "", "{{matrix}}", "{{matrix.a}}", "{{ matrix.b }}", "$HOME", "a b", "{{", "}}"}
	p := obj{}
	for _, d := range dims {
		p[d] = valPool[rng.Intn(len(valPool))]
	}
	nears := []string{"{{matrix", "{matrix}", "{{ matrixx }}", "{{matrix.}}", "{{matrix .a}}", "{{ matrix.a b }}", "{{Matrix}}", "{{ matrix.a }", "{ {matrix}}", "matrix.a",
		// padded with runes that Unicode calls space but the token grammar does not (\s is [ \t\n\f\r] only)
		"{{\u00a0matrix.a\u00a0}}", "{{\vmatrix}}", "{{\u0085matrix.b}}", "{{\u3000matrix\u3000}}", "{{\u2003matrix.zz}}"}
	lits := []string{"x ", "-", " echo ", "/", ":", "=v", "é", "\n"}
	ws := []string{"", " ", "  ", "\t", " \t ", "\n", "\n  ", "\r\n", "\f"} // "inner whitespace allowed": any whitespace, line breaks included
	mk := func(class string) obj {
		toks := []any{}
		if class == "pluginsrc" {
			toks = append(toks, obj{"t": "lit", "s": "./p-"})
		}
		for j, m := 0, 1+rng.Intn(4); j < m; j++ {
			switch rng.Intn(6) {
			case 0:
				toks = append(toks, obj{"t": "near", "s": nears[rng.Intn(len(nears))]}, obj{"t": "lit", "s": "|"})
			case 1, 2:
				toks = append(toks, obj{"t": "lit", "s": lits[rng.Intn(len(lits))]})
			default:
				d := "zz" // unknown dimension
				if len(dims) > 0 && rng.Intn(12) != 0 {
					d = dims[rng.Intn(len(dims))]
				} else if len(dims) > 0 && rng.Intn(2) == 0 {
					d = "" // anonymous token against a named matrix
				}
				if len(dims) == 0 && rng.Intn(3) != 0 {
					continue
				}
				toks = append(toks, obj{"t": "tok", "d": d, "a": ws[rng.Intn(len(ws))], "b": ws[rng.Intn(len(ws))]}, obj{"t": "lit", "s": "|"})
			}
		}
		if len(toks) == 0 {
			toks = append(toks, obj{"t": "lit", "s": "plain"})
		}
		// keep keys distinct per class
		toks = append(toks, obj{"t": "lit", "s": "#" + class})
		return obj{"toks": toks, "spelled": mSpell(normalizeList(toks))}
	}
	assign := obj{}
	for _, cl := range c12Classes {
		if rng.Intn(4) != 0 {
			assign[cl] = mk(cl)
		}
	}
	out := obj{"assign": assign, "p": p, "alias": rng.Intn(3) == 0}
	if len(dims) >= 2 && dims[0] != "" && rng.Intn(3) == 0 {
		d1, d2 := dims[0], dims[1]
		p[d1] = "{{matrix." + d2 + "}}"
		if v, _ := p[d2].(string); strings.Contains(v, "{{") {
			p[d2] = "prod"
		}
		out["twins"] = []any{d1, d2}
	}
	if len(dims) == 0 {
		out["zerodim"] = rng.Intn(4) // 0: no matrix at all; 1-3: a matrix without dimensions
	}
	return out
}

func normalizeList(l []any) []any {
	return normalize(obj{"l": l})["l"].([]any)
}
