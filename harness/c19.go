package main

import (
	"bytes"
	"context"
	"crypto/ed25519"
	crand "crypto/rand"
	"crypto/sha256"
	"encoding/json"
	"fmt"
	"math/rand"
	"os"
	"os/exec"
	"path/filepath"
	"reflect"
	"sort"
	"strings"
	"sync"

	pipeline "github.com/buildkite/go-pipeline"
	"github.com/buildkite/go-pipeline/ordered"
	"github.com/buildkite/go-pipeline/signature"
	"github.com/buildkite/go-pipeline/warning"
	"github.com/lestrrat-go/jwx/v2/jwk"
	"gopkg.in/yaml.v3"
)

// C19: no hidden shared state; observers do not mutate. The concurrent phase
// runs in a child process built with -race (GORACE log_path), so that a race
// report is observed and turned into a "race" event.

func digest(parts ...any) string {
	h := sha256.New()
	for _, p := range parts {
		fmt.Fprintf(h, "%v\x00", p)
	}
	return fmt.Sprintf("%x", h.Sum(nil))[:16]
}

// deepRep dumps the complete representation of a value, unexported fields
// included (reads only; no Interface() on unexported values).
func deepRep(v reflect.Value, b *strings.Builder, depth int) {
	if depth > 40 {
		b.WriteString("<deep>")
		return
	}
	if !v.IsValid() {
		b.WriteString("<invalid>")
		return
	}
	switch v.Kind() {
	case reflect.Pointer, reflect.Interface:
		if v.IsNil() {
			b.WriteString("nil")
			return
		}
		b.WriteString("&")
		deepRep(v.Elem(), b, depth+1)
	case reflect.Struct:
		b.WriteString(v.Type().String() + "{")
		for i := 0; i < v.NumField(); i++ {
			b.WriteString(v.Type().Field(i).Name + ":")
			deepRep(v.Field(i), b, depth+1)
			b.WriteString(",")
		}
		b.WriteString("}")
	case reflect.Slice, reflect.Array:
		if v.Kind() == reflect.Slice && v.IsNil() {
			b.WriteString("nilslice")
			return
		}
		fmt.Fprintf(b, "[%d/", v.Len())
		if v.Kind() == reflect.Slice {
			fmt.Fprintf(b, "cap%d:", v.Cap()) // representation, not just content
		}
		for i := 0; i < v.Len(); i++ {
			deepRep(v.Index(i), b, depth+1)
			b.WriteString(",")
		}
		b.WriteString("]")
	case reflect.Map:
		if v.IsNil() {
			b.WriteString("nilmap")
			return
		}
		type kv struct{ k, v string }
		var items []kv
		it := v.MapRange()
		for it.Next() {
			var kb, vb strings.Builder
			deepRep(it.Key(), &kb, depth+1)
			deepRep(it.Value(), &vb, depth+1)
			items = append(items, kv{kb.String(), vb.String()})
		}
		sort.Slice(items, func(i, j int) bool { return items[i].k < items[j].k })
		b.WriteString("map{")
		for _, x := range items {
			b.WriteString(x.k + ":" + x.v + ",")
		}
		b.WriteString("}")
	case reflect.String:
		fmt.Fprintf(b, "%q", v.String())
	case reflect.Bool:
		fmt.Fprintf(b, "%v", v.Bool())
	case reflect.Int, reflect.Int8, reflect.Int16, reflect.Int32, reflect.Int64:
		fmt.Fprintf(b, "%d", v.Int())
	case reflect.Uint, reflect.Uint8, reflect.Uint16, reflect.Uint32, reflect.Uint64, reflect.Uintptr:
		fmt.Fprintf(b, "%d", v.Uint())
	case reflect.Float32, reflect.Float64:
		fmt.Fprintf(b, "%v", v.Float())
	default:
		b.WriteString("<" + v.Kind().String() + ">")
	}
}

func repDigest(x any) string {
	if ks, ok := x.(jwk.Set); ok {
		// (an opaque object of another library: its published state is what it serialises to)
		jb, err := json.Marshal(ks)
		return digest("jwk.Set", string(jb), err)
	}
	var b strings.Builder
	deepRep(reflect.ValueOf(x), &b, 0)
	return digest(b.String())
}

// ---- shared, published objects ----

type sharedObjects struct {
	maps     []*ordered.MapSA
	mapsSS   []*ordered.MapSS
	pipe     *pipeline.Pipeline
	cmds     []*pipeline.CommandStep
	keyAlg   string
	env      map[string]string
	repo     string
	names    []string
	objs     map[string]any
	pubRep   map[string]string
	docPairs [][2]string // own work items: (source, name)
	keyset   jwk.Set     // the verifiers' shared key set: the signer's public key and an unrelated key WITHOUT a key id
}

// tombstoneMap builds an ordered map whose backing storage carries tombstones
// that Delete's compaction never saw (they come from Replace onto existing keys).
func tombstoneMap(rng *rand.Rand, n int) *ordered.MapSA {
	m := ordered.NewMap[string, any](0)
	for i := 0; i < n; i++ {
		m.Set(fmt.Sprintf("k%d", i), fmt.Sprintf("v%d", i))
	}
	for i := 0; i+1 < n; i += 2 {
		if rng.Intn(4) != 0 {
			m.Replace(fmt.Sprintf("k%d", i), fmt.Sprintf("k%d", i+1), fmt.Sprintf("r%d", i)) // tombstones slot i+1
		}
	}
	for i := 0; i < n/5; i++ {
		m.Delete(fmt.Sprintf("k%d", rng.Intn(n)))
	}
	if rng.Intn(2) == 0 {
		m.Set("nested", tombstoneMapInner(rng))
	}
	// sequences holding ordered maps (what plugin configs look like before ToMapRecursive)
	m.Set("list", []any{tombstoneMapInner(rng), "x", []any{tombstoneMapInner(rng), 7}})
	return m
}

func tombstoneMapInner(rng *rand.Rand) *ordered.MapSA {
	m := ordered.NewMap[string, any](0)
	for _, k := range []string{"a", "b", "c", "d"} {
		m.Set(k, rng.Intn(10))
	}
	m.Replace("a", "b", "x")
	m.Replace("c", "d", "y")
	return m
}

func buildShared(seed int64, nmaps, ndocs int) *sharedObjects {
	rng := newRand(seed, "c19shared")
	s := &sharedObjects{keyAlg: "EdDSA", repo: "https://example.com/repo.git", objs: map[string]any{}, pubRep: map[string]string{}}
	for i := 0; i < nmaps; i++ {
		m := tombstoneMap(rng, 4+rng.Intn(40))
		s.maps = append(s.maps, m)
		s.objs[fmt.Sprintf("map%d", i)] = m
		ss := ordered.NewMap[string, string](0)
		for j := 0; j < 6; j++ {
			ss.Set(fmt.Sprintf("e%d", j), fmt.Sprint(j))
		}
		ss.Replace("e0", "e1", "z")
		ss.Replace("e2", "e3", "z")
		ss.Replace("e4", "e5", "z")
		s.mapsSS = append(s.mapsSS, ss)
		s.objs[fmt.Sprintf("mapss%d", i)] = ss
	}
	// maps that were never written (what `env: {}` parses to, `new(Map)`, a struct field left alone): observers leave them untouched
	s.objs["zeromapss"] = new(ordered.MapSS)
	s.objs["zeromapsa"] = &ordered.MapSA{}
	// a shared, signed pipeline
	for {
		g := newDocGen(rng)
		g.noUnknown, g.noSig, g.typed = true, true, false
		doc := g.pipeline()
		src := string(utf8JSON(doc))
		pl, err := pipeline.Parse(strings.NewReader(src))
		if err != nil {
			continue
		}
		s.env = map[string]string{"PIPE_A": "1", "PIPE_B": "2"}
		if err := signature.SignSteps(context.Background(), pl.Steps, getKey(s.keyAlg, "K1").sign, s.repo, signature.WithEnv(s.env)); err != nil {
			continue
		}
		c06Commands(pl.Steps, &s.cmds)
		if len(s.cmds) == 0 {
			continue
		}
		for _, c := range s.cmds {
			// a field list need not be sorted to be valid (another signer, a hand-written file): verifying must
			// read it as it is, not tidy it up in place
			f := c.Signature.SignedFields
			for i, j := 0, len(f)-1; i < j; i, j = i+1, j-1 {
				f[i], f[j] = f[j], f[i]
			}
		}
		// ... plus a step nobody has observed yet (not even the signer), holding plugins whose config is
		// present but EMPTY: an observer that canonicalises "in place" would write to it on first sight
		pl.Steps = append(pl.Steps, &pipeline.CommandStep{Command: "fresh", Plugins: pipeline.Plugins{
			{Source: "docker#v1", Config: map[string]any{}}, {Source: "ecr#v2", Config: []any{}}, {Source: "./local", Config: nil}},
			Env: map[string]string{}, Matrix: &pipeline.Matrix{Setup: pipeline.MatrixSetup{"os": nil, "arch": {"amd64"}, "go": {}}, Adjustments: pipeline.MatrixAdjustments{}}, // (a dimension without values: nil is not "to be tidied")
			// more unknown keys than known ones (a marshaller must not borrow this map as its scratch space)
			RemainingFields: map[string]any{"agents": map[string]any{"queue": "q"}, "retry": 1, "timeout_in_minutes": 5, "soft_fail": true, "priority": 2, "concurrency": 1, "branches": "main"}})
		if pl.RemainingFields == nil {
			pl.RemainingFields = map[string]any{}
		}
		for _, k := range []string{"agents", "notify", "x1", "x2", "x3", "x4"} {
			pl.RemainingFields[k] = "top-" + k
		}
		s.pipe = pl
		break
	}
	s.objs["pipeline"] = s.pipe
	s.objs["env"] = s.env
	// a hand-written key set: next to the signer's public key (which carries a key id) an unrelated one that has none
	s.keyset = jwk.NewSet()
	if up, _, err := ed25519.GenerateKey(crand.Reader); err == nil {
		if uk, err := jwk.FromRaw(up); err == nil {
			uk.Set(jwk.AlgorithmKey, "EdDSA")
			s.keyset.AddKey(uk)
		}
	}
	s.keyset.AddKey(getKey(s.keyAlg, "K1").pub)
	if s.keyset.Len() != 2 {
		fatal("c19: could not build the shared key set")
	}
	s.objs["keyset"] = s.keyset
	for i := 0; i < ndocs; i++ {
		g := newDocGen(rng)
		// (own documents spell out `type:` on some steps: in the concurrent phase these are the FIRST typed steps the
		// process parses - nothing sequential has warmed up whatever the parser builds on first use)
		g.noUnknown, g.noSig, g.typed = true, true, true
		s.docPairs = append(s.docPairs, [2]string{string(utf8JSON(g.pipeline())), fmt.Sprintf("doc%d", i)})
	}
	for n := range s.objs {
		s.names = append(s.names, n)
	}
	sort.Strings(s.names)
	for _, n := range s.names {
		s.pubRep[n] = repDigest(s.objs[n])
	}
	return s
}

type c19Op struct {
	name string
	obj  string
	run  func() string // returns a digest of the result
}

// observerOps: read-only operations on the shared objects.
func (s *sharedObjects) observerOps() []c19Op {
	ctx := context.Background()
	var ops []c19Op
	for i, m := range s.maps {
		m, name := m, fmt.Sprintf("map%d", i)
		ops = append(ops,
			c19Op{"Get", name, func() string { v, ok := m.Get("k3"); return digest(v, ok, m.Contains("k1"), m.Len(), m.IsZero()) }},
			c19Op{"Range", name, func() string {
				var b strings.Builder
				m.Range(func(k string, v any) error {
					jv, _ := json.Marshal(v) // (never %v: pointers nested in slices print as addresses)
					fmt.Fprintf(&b, "%s=%s;", k, jv)
					return nil
				})
				return digest(b.String())
			}},
			c19Op{"ToMap", name, func() string { return digest(len(m.ToMap()), repDigest(ordered.ToMapRecursive(m))) }},
			c19Op{"Derive", name, func() string {
				// the derived-map API reads its source
				t := ordered.TransformValues(m, func(v any) any { return v })
				_, aerr := ordered.AssertValues[string](m)
				return digest(t.Len(), aerr != nil, repDigest(ordered.ToMapRecursive(m)))
			}},
			c19Op{"Equal", name, func() string { return digest(ordered.Equal(m, m), ordered.Equal(m, s.maps[(i+1)%len(s.maps)])) }},
			c19Op{"MarshalJSON", name, func() string { b, err := json.Marshal(m); return digest(string(b), err) }},
			c19Op{"MarshalYAML", name, func() string { b, err := yaml.Marshal(m); return digest(string(b), err) }},
		)
	}
	for i, m := range s.mapsSS {
		m, name := m, fmt.Sprintf("mapss%d", i)
		ops = append(ops,
			c19Op{"RangeSS", name, func() string {
				var b strings.Builder
				m.Range(func(k, v string) error { b.WriteString(k + "=" + v + ";"); return nil })
				return digest(b.String(), m.Len())
			}},
			c19Op{"MarshalJSONSS", name, func() string { b, err := json.Marshal(m); return digest(string(b), err) }},
		)
	}
	zss, zsa := s.objs["zeromapss"].(*ordered.MapSS), s.objs["zeromapsa"].(*ordered.MapSA)
	ops = append(ops,
		c19Op{"ZeroMapSS", "zeromapss", func() string {
			v, ok := zss.Get("a")
			n := 0
			zss.Range(func(k, v string) error { n++; return nil })
			jb, _ := json.Marshal(zss)
			yb, _ := yaml.Marshal(zss)
			return digest(v, ok, zss.Contains("a"), zss.Len(), zss.IsZero(), n, len(zss.ToMap()), ordered.Equal(zss, zss), string(jb), string(yb))
		}},
		c19Op{"ZeroMapSA", "zeromapsa", func() string {
			v, ok := zsa.Get("a")
			jb, _ := json.Marshal(zsa)
			yb, _ := yaml.Marshal(zsa)
			return digest(v, ok, zsa.Contains("a"), zsa.Len(), zsa.IsZero(), len(zsa.ToMap()), ordered.Equal(zsa, zsa), repDigest(ordered.ToMapRecursive(zsa)), string(jb), string(yb))
		}},
		c19Op{"PipelineJSON", "pipeline", func() string { b, err := json.Marshal(s.pipe); return digest(string(b), err) }},
		c19Op{"PipelineYAML", "pipeline", func() string { b, err := yaml.Marshal(s.pipe); return digest(string(b), err) }},
		c19Op{"FullSource", "pipeline", func() string {
			var b strings.Builder
			for _, c := range s.cmds {
				for _, p := range c.Plugins {
					b.WriteString(p.FullSource() + ";")
				}
			}
			return digest(b.String())
		}},
		c19Op{"Verify", "pipeline", func() string {
			var b strings.Builder
			for _, c := range s.cmds {
				err := signature.Verify(ctx, c.Signature, keySetFor(s.keyAlg, "signer"), &signature.CommandStepWithInvariants{CommandStep: *c, RepositoryURL: s.repo}, signature.WithEnv(s.env))
				fmt.Fprintf(&b, "%v;", err == nil)
			}
			return digest(b.String())
		}},
		c19Op{"VerifySharedKeys", "keyset", func() string {
			// verification READS the key set it is given
			var b strings.Builder
			for _, c := range s.cmds {
				err := signature.Verify(ctx, c.Signature, s.keyset, &signature.CommandStepWithInvariants{CommandStep: *c, RepositoryURL: s.repo}, signature.WithEnv(s.env))
				fmt.Fprintf(&b, "%v;", err == nil)
			}
			return digest(b.String())
		}},
		c19Op{"RejectedPermutation", "pipeline", func() string {
			var b strings.Builder
			for _, c := range s.cmds {
				err := c.InterpolateMatrixPermutation(pipeline.MatrixPermutation{"no-such-dimension": "x", "another": "y", "third": "z", "fourth": "w"})
				fmt.Fprintf(&b, "%v;", err != nil)
			}
			return digest(b.String())
		}},
		c19Op{"SignShared", "pipeline", func() string {
			// signing READS the step (and the env map): the shared steps are signed again, the new signatures are not attached
			var b strings.Builder
			for _, c := range s.cmds {
				sg, err := signature.Sign(ctx, getKey(s.keyAlg, "K1").sign, &signature.CommandStepWithInvariants{CommandStep: *c, RepositoryURL: s.repo}, signature.WithEnv(s.env))
				if err != nil {
					fmt.Fprintf(&b, "err;")
					continue
				}
				fmt.Fprintf(&b, "%v;", sg.SignedFields)
			}
			return digest(b.String())
		}},
		c19Op{"SignWithSharedEnv", "env", func() string {
			// signing observes the caller's env map
			st := &signature.CommandStepWithInvariants{CommandStep: pipeline.CommandStep{Command: "echo", Env: map[string]string{"PIPE_A": "shadow"}}, RepositoryURL: s.repo}
			sg, err := signature.Sign(ctx, getKey(s.keyAlg, "K1").sign, st, signature.WithEnv(s.env))
			if err != nil {
				return digest("err", err.Error())
			}
			st2 := &signature.CommandStepWithInvariants{CommandStep: pipeline.CommandStep{Command: "echo"}, RepositoryURL: s.repo}
			sg2, err := signature.Sign(ctx, getKey(s.keyAlg, "K1").sign, st2, signature.WithEnv(s.env))
			if err != nil {
				return digest("err2", err.Error())
			}
			return digest(sg.SignedFields, sg2.SignedFields)
		}},
	)
	return ops
}

// ownWork: parse / interpolate / marshal / sign / verify a goroutine's own document; returns result digests per step.
func ownWork(src, keyAlg, repo string, item, nitems int) []c19Op {
	ctx := context.Background()
	var pl *pipeline.Pipeline
	return []c19Op{
		{"InterpolateNilEnv", "", func() string {
			// no caller env: each pipeline gets its own fresh one; nothing of pipeline `item` may reach another
			doc := fmt.Sprintf(`{"env":{"OWN_%d":"v%d"},"steps":[{"command":"echo ${OWN_%d} ${OWN_%d-unset}"}]}`, item, item, item, (item+1)%nitems)
			p, err := pipeline.Parse(strings.NewReader(doc))
			if err != nil {
				return digest("parse", err.Error())
			}
			ierr := p.Interpolate(nil, false)
			b, _ := json.Marshal(p)
			return digest(ierr == nil, string(b))
		}},
		{"MapFromSharedItems", "", func() string {
			// every work item builds ITS OWN map from one shared table of defaults (a slice with spare capacity) and edits
			// it: the maps are independent of each other and of the table
			m := ordered.MapFromItems(c19Defaults...)
			m.Set(fmt.Sprintf("own-%d", item), item)
			m.Set("d0", fmt.Sprintf("mine-%d", item))
			m.Delete("d1")
			m.Replace("d2", fmt.Sprintf("renamed-%d", item), item)
			b, _ := json.Marshal(m)
			t, _ := json.Marshal(c19Defaults)
			return digest(string(b), m.Len(), string(t))
		}},
		{"VerifyRefusals", "", func() string {
			// verifications that are REFUSED (a genuine signature that lacks one mandatory field) next to each other: what one
			// refusal leaves behind must not soften the next check, in this goroutine or in any other
			st := func() *signature.CommandStepWithInvariants {
				return &signature.CommandStepWithInvariants{CommandStep: pipeline.CommandStep{Command: fmt.Sprintf("echo own-%d", item), Env: map[string]string{"A": "1"}}, RepositoryURL: repo}
			}
			var b strings.Builder
			for _, drop := range []string{"matrix", "plugins", "repository_url", "env", "command"} {
				sg, err := signature.Sign(ctx, getKey(keyAlg, "K1").sign, &partialFielder{inner: st(), drop: drop})
				if err != nil {
					return digest("signerr", err.Error())
				}
				tampered := st()
				if drop == "command" {
					tampered.Command = "echo tampered"
				}
				verr := signature.Verify(ctx, sg, keySetFor(keyAlg, "signer"), tampered)
				fmt.Fprintf(&b, "%s:%v;", drop, verr == nil)
			}
			return digest(b.String())
		}},
		{"ParseUninferable", "", func() string {
			// a step whose kind cannot be inferred, at a position that is this work item's own: the warning names
			// THAT position, whatever other goroutines parse meanwhile
			steps := []string{}
			for j := 0; j < item; j++ {
				steps = append(steps, `"wait"`)
			}
			steps = append(steps, fmt.Sprintf(`{"label":"own-%d"}`, item), `"wait"`)
			_, err := pipeline.Parse(strings.NewReader(`{"steps":[` + strings.Join(steps, ",") + `]}`))
			if err == nil {
				return digest("no warning")
			}
			return digest(warning.Is(err), err.Error())
		}},
		{"Parse", "", func() string {
			p, err := pipeline.Parse(strings.NewReader(src))
			pl = p
			if err != nil && !warning.Is(err) {
				return digest("hard")
			}
			b, _ := json.Marshal(p)
			return digest(string(b))
		}},
		{"Interpolate", "", func() string {
			if pl == nil {
				return "nil"
			}
			err := pl.Interpolate(&foldingEnv{m: map[string]string{"HOME": "/h"}}, false)
			b, _ := json.Marshal(pl)
			return digest(err == nil, string(b))
		}},
		{"MarshalYAML", "", func() string {
			if pl == nil {
				return "nil"
			}
			b, err := yaml.Marshal(pl)
			return digest(string(b), err == nil)
		}},
		{"SignVerify", "", func() string {
			if pl == nil {
				return "nil"
			}
			env := map[string]string{"X": "1"}
			if err := signature.SignSteps(ctx, pl.Steps, getKey(keyAlg, "K1").sign, repo, signature.WithEnv(env)); err != nil {
				return digest("signerr")
			}
			var cmds []*pipeline.CommandStep
			c06Commands(pl.Steps, &cmds)
			var b strings.Builder
			for _, c := range cmds {
				err := signature.Verify(ctx, c.Signature, keySetFor(keyAlg, "signer"), &signature.CommandStepWithInvariants{CommandStep: *c, RepositoryURL: repo}, signature.WithEnv(env))
				fmt.Fprintf(&b, "%v %v;", c.Signature.SignedFields, err == nil)
			}
			return digest(b.String())
		}},
	}
}

// c19Defaults: a shared table of defaults, with spare capacity behind its last item.
var c19Defaults = func() []ordered.TupleSA {
	t := make([]ordered.TupleSA, 0, 16)
	for i := 0; i < 5; i++ {
		t = append(t, ordered.TupleSA{Key: fmt.Sprintf("d%d", i), Value: i})
	}
	return t
}()

type c19Emitter struct {
	mu sync.Mutex
	tw *traceWriter
}

func (e *c19Emitter) emit(ev obj) {
	e.mu.Lock()
	e.tw.emit(ev)
	e.mu.Unlock()
}

func runOp(op c19Op) (res string, panicked bool, msg string) {
	panicked, msg = guarded(func() { res = op.run() })
	return
}

func c19Phase(tw *traceWriter, fl flags, concurrent bool, ref map[string]string) map[string]string {
	seed := int64(fl.int("seed", 1))
	s := buildShared(seed, fl.int("maps", 4), fl.int("docs", 16))
	getKey(s.keyAlg, "K1")
	em := &c19Emitter{tw: tw}
	results := map[string]string{}
	var rmu sync.Mutex
	obsOps := s.observerOps()
	worker := func(g int, rounds int) {
		rng := newRand(seed*977+int64(g), "c19worker")
		seq := 0
		for r := 0; r < rounds; r++ {
			// own objects
			dp := s.docPairs[(g+r)%len(s.docPairs)]
			for _, op := range ownWork(dp[0], s.keyAlg, s.repo, (g+r)%len(s.docPairs), len(s.docPairs)) {
				res, p, msg := runOp(op)
				key := "own/" + dp[1] + "/" + op.name
				seq++
				if ref == nil {
					rmu.Lock()
					results[key] = res
					rmu.Unlock()
					continue
				}
				em.emit(obj{"kind": "own", "g": g, "seq": seq, "op": op.name, "item": dp[1], "result": res, "refresult": ref[key], "panic": p, "panicmsg": msg})
			}
			// shared, published objects: read-only use
			for k := 0; k < 12; k++ {
				op := obsOps[rng.Intn(len(obsOps))]
				before := repDigest(s.objs[op.obj])
				res, p, msg := runOp(op)
				after := repDigest(s.objs[op.obj])
				key := "obs/" + op.obj + "/" + op.name
				seq++
				if ref == nil {
					rmu.Lock()
					results[key] = res
					rmu.Unlock()
					// the sequential run already decides "observers do not mutate"
					em.emit(obj{"kind": "observe", "g": -1, "seq": seq, "op": op.name, "obj": op.obj, "repbefore": before, "repafter": after,
						"reppublished": s.pubRep[op.obj], "result": res, "refresult": res, "panic": p, "panicmsg": msg})
					continue
				}
				em.emit(obj{"kind": "observe", "g": g, "seq": seq, "op": op.name, "obj": op.obj, "repbefore": before, "repafter": after,
					"reppublished": s.pubRep[op.obj], "result": res, "refresult": ref[key], "panic": p, "panicmsg": msg})
			}
		}
	}
	rounds := fl.int("rounds", 20)
	if !concurrent {
		// sequential reference: every observer op at least once, every work item once per goroutine slot
		for _, op := range obsOps {
			before := repDigest(s.objs[op.obj])
			res, p, msg := runOp(op)
			after := repDigest(s.objs[op.obj])
			results["obs/"+op.obj+"/"+op.name] = res
			em.emit(obj{"kind": "observe", "g": -1, "seq": 0, "op": op.name, "obj": op.obj, "repbefore": before, "repafter": after,
				"reppublished": s.pubRep[op.obj], "result": res, "refresult": res, "panic": p, "panicmsg": msg})
		}
		for di, dp := range s.docPairs {
			for _, op := range ownWork(dp[0], s.keyAlg, s.repo, di, len(s.docPairs)) {
				res, _, _ := runOp(op)
				results["own/"+dp[1]+"/"+op.name] = res
			}
		}
		return results
	}
	var wg sync.WaitGroup
	for g := 0; g < fl.int("goroutines", 16); g++ {
		wg.Add(1)
		go func(g int) { defer wg.Done(); worker(g, rounds) }(g)
	}
	wg.Wait()
	return nil
}

func runC19(args []string) {
	fl := parseFlags(args)
	installFixedKey()
	if fl.str("child", "") != "" {
		// concurrent phase (this process is built with -race; GORACE log_path is set by the parent)
		var ref map[string]string
		b, err := os.ReadFile(fl.str("ref", ""))
		if err != nil {
			fatal("child: %v", err)
		}
		if err := json.Unmarshal(b, &ref); err != nil {
			fatal("child: %v", err)
		}
		tw := newTraceWriter(fl.str("out", ""))
		c19Phase(tw, fl, true, ref)
		tw.close()
		return
	}
	out := fl.str("out", "")
	tw := newTraceWriter(out)
	ref := c19Phase(tw, fl, false, nil)
	nseq := tw.n
	tw.close()
	dir := filepath.Dir(out)
	refFile := filepath.Join(dir, filepath.Base(out)+".ref.json")
	rb, _ := json.Marshal(ref)
	if err := os.WriteFile(refFile, rb, 0o644); err != nil {
		fatal("%v", err)
	}
	childOut := out + ".child"
	raceLog := filepath.Join(dir, filepath.Base(out)+".race")
	cmd := exec.Command(os.Args[0], "c19", "-child", "1", "-ref", refFile, "-out", childOut, "-seed", fl.str("seed", "1"),
		"-rounds", fl.str("rounds", "20"), "-goroutines", fl.str("goroutines", "16"), "-maps", fl.str("maps", "4"), "-docs", fl.str("docs", "16"))
	cmd.Env = append(os.Environ(), "GORACE=log_path="+raceLog+" halt_on_error=0 exitcode=0")
	var stderr bytes.Buffer
	cmd.Stderr = &stderr
	fatalRace := ""
	if err := cmd.Run(); err != nil {
		// The Go runtime itself detects unsynchronised access to one map ("fatal error: concurrent map
		// writes" / "... read and map write" / "... iteration and map write") and kills the process:
		// that is a data race observed in the concurrent phase, reported like a race-detector report.
		// Any other death of the child is a failure of the driver.
		se := stderr.String()
		i := strings.Index(se, "fatal error: concurrent map")
		if i < 0 {
			fatal("concurrent phase crashed: %v\n%s", err, se)
		}
		lines := strings.Split(se[i:], "\n")
		if len(lines) > 24 {
			lines = lines[:24]
		}
		fatalRace = strings.Join(lines, " | ")
	}
	// merge: sequential events, concurrent events, race reports
	f, err := os.OpenFile(out, os.O_APPEND|os.O_WRONLY, 0o644)
	if err != nil {
		fatal("%v", err)
	}
	cb, _ := os.ReadFile(childOut)
	cb = cb[:bytes.LastIndexByte(cb, '\n')+1] // (a child that died may have left half a line)
	f.Write(cb)
	nconc := bytes.Count(cb, []byte("\n"))
	races := 0
	if fatalRace != "" {
		races++
		f.Write(asciiJSON(obj{"kind": "race", "report": fatalRace}))
		f.Write([]byte("\n"))
	}
	logs, _ := filepath.Glob(raceLog + "*")
	for _, lf := range logs {
		lb, _ := os.ReadFile(lf)
		for _, rep := range strings.Split(string(lb), "==================") {
			if strings.Contains(rep, "DATA RACE") {
				races++
				lines := strings.Split(strings.TrimSpace(rep), "\n")
				if len(lines) > 14 {
					lines = lines[:14]
				}
				f.Write(asciiJSON(obj{"kind": "race", "report": strings.Join(lines, " | ")}))
				f.Write([]byte("\n"))
			}
		}
	}
	f.Close()
	writeSummary(fl.str("summary", ""), obj{"events": nseq + nconc + races, "sequential_events": nseq, "concurrent_events": nconc, "race_reports": races,
		"samples": []any{obj{"goroutines": fl.int("goroutines", 16), "rounds": fl.int("rounds", 20), "shared_objects": "ordered maps with tombstones (MapSA, MapSS), a signed pipeline, an env map", "ops": "Get Range ToMap Derive(TransformValues,AssertValues,ToMapRecursive) Equal MarshalJSON MarshalYAML FullSource Verify RejectedPermutation SignShared SignWithSharedEnv; own: InterpolateNilEnv ParseUninferable Parse Interpolate MarshalYAML SignVerify"}}})
}
